#!/usr/bin/env python3
"""Differential validation of mirse's std models: every probe function of gen.py is executed natively and by the engine (from the
probe crate's MIR, same rustc flags as the checks) on the same concrete inputs; the Debug rendering of the results must agree.
Usage: python3-vt run.py [name-filter]    -> prints agreement / mismatch / unsupported counts, writes result.json"""
import os, sys, subprocess, json, re, time
HERE = os.path.dirname(os.path.abspath(__file__))
sys.path.insert(0, os.path.dirname(HERE))
import gen
from mirse import mir as M, harness as H, models as MODELS
from mirse.engine import *
from mirse.sym import *
import z3

TARGET = os.environ.get('STDPROBE_TARGET', '/root/.cache/stdprobe-target')


def split_top(s, sep=','):
    out = []; d = 0; cur = ''
    for ch in s:
        if ch in '<([': d += 1
        elif ch in '>)]': d -= 1
        if ch == sep and d == 0: out.append(cur.strip()); cur = ''
        else: cur += ch
    if cur.strip(): out.append(cur.strip())
    return out


def esc_str(b, quote):
    out = ''
    for ch in b.decode('utf-8', 'replace'):
        o = ord(ch)
        if ch == '\n': out += '\\n'
        elif ch == '\r': out += '\\r'
        elif ch == '\t': out += '\\t'
        elif ch == '\\': out += '\\\\'
        elif ch == '\0': out += '\\0'
        elif ch == quote: out += '\\' + ch
        elif o < 0x20 or o == 0x7f: out += '\\u{%x}' % o
        else: out += ch
    return out


def conc_int(v):
    if isinstance(v, Int):
        if not v.conc:
            x = z3.simplify(v.v)
            if not z3.is_bv_value(x): raise ValueError('symbolic int')
            v = Int(v.ty, x.as_long())
        return v.signed_val() if v.ty in SIGNED else v.v
    if isinstance(v, bool): return v
    raise ValueError('not an int: %r' % (v,))


def to_debug(v, ty):
    ty = ty.strip()
    while ty.startswith('&'): ty = ty[1:].strip()
    if ty.startswith("'"): ty = ty.split(' ', 1)[1] if ' ' in ty else ty
    if ty.startswith('mut '): ty = ty[4:]
    if isinstance(v, MutRef): raise ValueError('reference escaped')
    if ty == 'bool':
        if isinstance(v, bool): return 'true' if v else 'false'
        x = z3.simplify(v)
        if z3.is_true(x): return 'true'
        if z3.is_false(x): return 'false'
        raise ValueError('symbolic bool')
    if ty in WIDTH and ty != 'char': return str(conc_int(v))
    if ty == 'char':
        c = conc_int(v); return "'%s'" % esc_str(chr(c).encode('utf-8'), "'")
    if ty in ('str', 'String', 'std::string::String'):
        b = v.concrete()
        if b is None: raise ValueError('symbolic string')
        return '"%s"' % esc_str(b, '"')
    m = re.match(r'^(?:std::vec::)?Vec<(.*)>$', ty) or re.match(r'^\[(.*?)(?:; \d+)?\]$', ty)
    if m:
        et = m.group(1)
        if isinstance(v, SymStr):
            b = v.concrete()
            if b is None: raise ValueError('symbolic bytes')
            return '[' + ', '.join(str(x) for x in b) + ']'
        return '[' + ', '.join(to_debug(x, et) for x in v.items) + ']'
    m = re.match(r'^(?:std::option::)?Option<(.*)>$', ty)
    if m:
        if v.variant == 'None': return 'None'
        return 'Some(%s)' % to_debug(v.fields[0], m.group(1))
    m = re.match(r'^(?:std::result::)?Result<(.*)>$', ty)
    if m:
        a, b = split_top(m.group(1))
        return '%s(%s)' % (v.variant, to_debug(v.fields[0], a if v.variant == 'Ok' else b))
    if ty.startswith('(') and ty.endswith(')'):
        ts = split_top(ty[1:-1])
        items = v.items if hasattr(v, 'items') else v.fields
        return '(' + ', '.join(to_debug(x, t) for x, t in zip(items, ts)) + (',)' if len(ts) == 1 else ')')
    raise ValueError('type ' + ty)


def concretize(v, m):
    """value under a z3 model"""
    if isinstance(v, SymStr): return SymStr.const(model_bytes(m, v))
    if isinstance(v, Int):
        if v.conc: return v
        return Int(v.ty, m.eval(v.v, model_completion=True).as_long())
    if isinstance(v, bool): return v
    if hasattr(v, 'sort') and z3.is_bool(v): return z3.is_true(m.eval(v, model_completion=True))
    if isinstance(v, Vec): return Vec([concretize(x, m) for x in v.items])
    if isinstance(v, Tup): return Tup(tuple(concretize(x, m) for x in v.items))
    if isinstance(v, Enum): return Enum(v.ty, v.variant, tuple(concretize(x, m) for x in v.fields))
    return v


def mk_arg(kind, inp):
    if kind == 'ss': return [SymStr.const(inp[0].encode()), SymStr.const(inp[1].encode())]
    if kind == 'sc': return [SymStr.const(inp[0].encode()), Int('char', ord(inp[1]))]
    if kind == 'sn': return [SymStr.const(inp[0].encode()), Int('usize', inp[1])]
    if kind == 'vn': return [SymStr.const(inp[0]), Int('usize', inp[1])]
    if kind == 'or':
        a = NONE if inp[0] is None else Some(Int('usize', inp[0]))
        b = Ok(Int('usize', int(inp[1][2:]))) if inp[1].startswith('O:') else Err(SymStr.const(inp[1][2:].encode()))
        return [a, b]
    if kind == 'ux': return [Int('u64', inp[0]), Int('u64', inp[1]), Int('i32', inp[2] & 0xffffffff), Int('u8', inp[3])]


def main():
    symbolic = '--symbolic' in sys.argv
    args_ = [a for a in sys.argv[1:] if not a.startswith('--')]
    flt = args_[0] if args_ else ''
    gen.gen()
    env = dict(os.environ, CARGO_NET_OFFLINE='true', CARGO_TARGET_DIR=TARGET)
    r = subprocess.run(['cargo', 'build', '--offline', '--quiet', '--manifest-path', os.path.join(HERE, 'Cargo.toml')], env=env, stderr=subprocess.PIPE)
    if r.returncode: sys.stderr.write(r.stderr.decode()[-3000:]); sys.exit(2)
    native = {}
    out = subprocess.run([os.path.join(TARGET, 'debug', 'stdprobe')], stdout=subprocess.PIPE, stderr=subprocess.PIPE).stdout.decode('utf-8', 'replace')
    for ln in out.split('\n'):
        if '|' in ln:
            a, b, c = ln.split('|', 2); native[(a, int(b))] = c
    cmd = ['cargo', '+nightly', 'rustc', '--offline', '--manifest-path', os.path.join(HERE, 'Cargo.toml'), '--bin', 'stdprobe', '--'] + M.NIGHTLY_FLAGS
    import glob, shutil
    for d in glob.glob(os.path.join(TARGET + '-mir', 'debug', '.fingerprint', 'stdprobe-*')): shutil.rmtree(d, ignore_errors=True)
    r = subprocess.run(cmd, env=dict(env, CARGO_TARGET_DIR=TARGET + '-mir'), stdout=subprocess.PIPE, stderr=subprocess.PIPE)
    txt = r.stdout.decode('utf-8', 'replace')
    if 'fn ' not in txt: sys.stderr.write(r.stderr.decode()[-3000:]); sys.exit(2)
    prog = M.Program(); M.parse_program(txt, HERE, prog, 'rws'); M.learn_user_enums(prog, os.path.join(HERE, 'src'))
    cap = {}

    def m_dbg(ex, st, c):
        mm = re.search(r'new_debug::<(.*)>$', c.callee)
        st.world['_dbg'] = (D_(ex, st, c.args[0]), mm.group(1) if mm else '?')
        return Opaque('fmtarg', ('debug', SymStr.const(b'')))

    def D_(ex, st, v): return ex.deref(st, v)
    res = {'agree': 0, 'mismatch': [], 'unsupported': {}, 'native_panic': 0}
    t0 = time.time()
    for name, kind, expr in gen.P:
        if flt and flt not in name: continue
        fn = 'p_%s_%s' % (kind, name)
        for i, inp in enumerate(gen.INPUTS[kind]):
            exp = native.get(('%s_%s' % (kind, name), i))
            ex = H.new_executor(prog, max_block_visits=400)
            ex.models = [(re.compile(r'^core::fmt::rt::Argument::.*new_debug'), m_dbg)] + ex.models; ex.model_cache = {}
            ex.allow_non_ascii = False
            st = State()
            args = mk_arg(kind, inp)
            if symbolic:
                # the first argument becomes a symbolic string of the same length constrained to equal the input: the symbolic
                # circuits of the models are exercised, and the result is read back under the (unique) model
                if kind not in ('ss', 'sc', 'sn', 'vn') or len(args[0].concrete()) == 0: continue
                cons = []
                sv = SymStr.fresh('in', len(args[0].concrete()), cons, exact_len=len(args[0].concrete()))
                cons.append(zb(sv.eq(args[0]))); st.pc = list(cons); args = [sv] + args[1:]
            try:
                outs = ex.run_fn(fn, args, st)
            except Exception as e:
                res['unsupported'].setdefault(name, {})[i] = str(e)[:160]; continue
            if symbolic:
                feas = []
                for o_ in outs:
                    rr, mm = ex.check(o_.pc)
                    if rr == 'sat': feas.append((o_, mm))
                if len(feas) != 1:
                    res['mismatch'].append((name, i, 'feasible paths=%d' % len(feas), exp)); continue
                o, mm = feas[0]
                if o.outcome[0] == 'return' and '_dbg' in o.world:
                    v_, ty_ = o.world['_dbg']; o.world['_dbg'] = (concretize(v_, mm), ty_)
            else:
                if len(outs) != 1:
                    res['mismatch'].append((name, i, 'paths=%d' % len(outs), exp)); continue
                o = outs[0]
            if o.outcome[0] == 'stop':
                res['unsupported'].setdefault(name, {})[i] = '%s: %s' % (o.outcome[1], str(o.outcome[2])[:140]); continue
            if o.outcome[0] == 'panic':
                got = 'PANIC'
            else:
                try:
                    v, ty = o.world['_dbg']; got = to_debug(v, ty)
                except Exception as e:
                    res['unsupported'].setdefault(name, {})[i] = 'render: %s' % str(e)[:140]; continue
            if exp is None:
                if got == 'PANIC': res['native_panic'] += 1; res['agree'] += 1
                else: res['mismatch'].append((name, i, got, 'native: no line (panic?)'))
            elif got == exp: res['agree'] += 1
            else: res['mismatch'].append((name, i, got, exp))
    res['wall_s'] = round(time.time() - t0, 1)
    print('agree %d  mismatch %d  functions with unsupported inputs %d (%d function/input pairs)  (%.1fs)' % (res['agree'], len(res['mismatch']), len(res['unsupported']), sum(len(v) for v in res['unsupported'].values()), res['wall_s']))
    for m_ in res['mismatch'][:60]: print('  MISMATCH', m_)
    nin = {name: len(gen.INPUTS[kind]) for name, kind, _ in gen.P}
    for k, v in sorted(res['unsupported'].items()):
        print('  UNSUPPORTED %-22s %d/%d inputs; e.g. #%d: %s' % (k, len(v), nin[k], sorted(v)[0], v[sorted(v)[0]]))
    res['unsupported_inputs'] = sum(len(v) for v in res['unsupported'].values())
    json.dump(res, open(os.path.join(HERE, 'result_symbolic.json' if symbolic else 'result.json'), 'w'), indent=1, default=str)
    sys.exit(1 if res['mismatch'] else 0)


if __name__ == '__main__':
    main()
