#!/usr/bin/env python3
"""Generates a small Rust crate of one-liners over std APIs (strings, byte vectors, iterators, Option/Result, integers), runs it
natively and through mirse on the same concrete inputs, and compares the results.  Validates the std models (and lists the gaps)."""
import os, sys, subprocess, json, re
HERE = os.path.dirname(os.path.abspath(__file__))
P = []   # (name, kind, expression producing something Display/Debug-printable via format!("{:?}"))
def add(kind, name, expr): P.append((name, kind, expr))
# ---- strings: s, t: &str ; c: char ; n: usize
for nm, e in [
 ('starts_with', 's.starts_with(t)'), ('ends_with', 's.ends_with(t)'), ('contains', 's.contains(t)'), ('find', 's.find(t)'), ('rfind', 's.rfind(t)'),
 ('strip_prefix', 's.strip_prefix(t)'), ('strip_suffix', 's.strip_suffix(t)'), ('split_once', 's.split_once(t)'), ('rsplit_once', 's.rsplit_once(t)'),
 ('trim_start_matches', 's.trim_start_matches(t)'), ('trim_end_matches', 's.trim_end_matches(t)'), ('eq_ignore_ascii_case', 's.eq_ignore_ascii_case(t)'),
 ('replace', 's.replace(t, "xy")'), ('replacen', 's.replacen(t, "", 1)'), ('split_collect', 's.split(t).collect::<Vec<&str>>()'), ('split_count', 's.split(t).count()'),
 ('splitn', 's.splitn(2, t).collect::<Vec<&str>>()'), ('rsplit', 's.rsplit(t).collect::<Vec<&str>>()'), ('matches_count', 's.matches(t).count()'), ('split_last', 's.split(t).last()'), ('split_nth1', 's.split(t).nth(1)'),
 ('split_map_len', 's.split(t).map(|x| x.len()).collect::<Vec<usize>>()'), ('split_filter', 's.split(t).filter(|x| !x.is_empty()).collect::<Vec<&str>>()'), ('split_any_empty', 's.split(t).any(|x| x.is_empty())'),
 ('cmp_lt', 's < t'), ('eq', 's == t'), ('concat', '[s, t].concat()'), ('join', '[s, t].join("-")'), ('format', 'format!("{}:{}", s, t)'),
 ('split_enumerate', 's.split(t).enumerate().map(|(i, x)| i + x.len()).collect::<Vec<usize>>()'),
 ('split_skip', 's.split(t).skip(1).collect::<Vec<&str>>()'), ('split_take', 's.split(t).take(1).collect::<Vec<&str>>()'), ('split_position', 's.split(t).position(|x| x == "b")'),
 ('split_find', 's.split(t).find(|x| x.len() > 1)'), ('split_fold', 's.split(t).fold(0usize, |a, x| a * 10 + x.len())'), ('split_strings', 's.split(t).map(|x| x.to_string()).collect::<Vec<String>>()'),
]: add('ss', nm, e)
for nm, e in [
 ('contains_c', 's.contains(c)'), ('find_c', 's.find(c)'), ('rfind_c', 's.rfind(c)'), ('split_c', 's.split(c).collect::<Vec<&str>>()'), ('trim_matches_c', 's.trim_matches(c)'),
 ('trim_end_matches_c', 's.trim_end_matches(c)'), ('split_once_c', 's.split_once(c)'), ('rsplit_once_c', 's.rsplit_once(c)'), ('starts_with_c', 's.starts_with(c)'), ('ends_with_c', 's.ends_with(c)'),
 ('replace_c', 's.replace(c, "")'), ('chars_position', 's.chars().position(|x| x == c)'), ('chars_filter', 's.chars().filter(|x| *x != c).collect::<String>()'), ('rsplitn_c', 's.rsplitn(2, c).collect::<Vec<&str>>()'),
 ('split_terminator', 's.split_terminator(c).collect::<Vec<&str>>()'), ('split_inclusive', 's.split_inclusive(c).collect::<Vec<&str>>()'), ('retain', '{ let mut x = s.to_string(); x.retain(|y| y != c); x }'),
 ('push', '{ let mut x = s.to_string(); x.push(c); x }'), ('insert0', '{ let mut x = s.to_string(); x.insert(0, c); x }'), ('trim_start_matches_cl', 's.trim_start_matches(|x: char| x == c || x == \' \')'),
 ('starts_with_cl', 's.starts_with(|x: char| x == c)'), ('split_cl', 's.split(|x: char| x == c || x == \',\').collect::<Vec<&str>>()'), ('find_cl', 's.find(|x: char| x == c)'),
]: add('sc', nm, e)
for nm, e in [
 ('trim', 's.trim()'), ('trim_start', 's.trim_start()'), ('trim_end', 's.trim_end()'), ('to_lowercase', 's.to_lowercase()'), ('to_uppercase', 's.to_uppercase()'),
 ('to_ascii_lowercase', 's.to_ascii_lowercase()'), ('to_ascii_uppercase', 's.to_ascii_uppercase()'), ('is_empty', 's.is_empty()'), ('len', 's.len()'), ('is_ascii', 's.is_ascii()'),
 ('is_char_boundary', 's.is_char_boundary(n)'), ('repeat', 's.repeat(2)'), ('chars_count', 's.chars().count()'), ('bytes_count', 's.bytes().count()'), ('lines', 's.lines().collect::<Vec<&str>>()'),
 ('split_whitespace', 's.split_whitespace().collect::<Vec<&str>>()'), ('char_indices', 's.char_indices().map(|(i, c)| i + c as usize).sum::<usize>()'), ('chars_rev', 's.chars().rev().collect::<String>()'),
 ('chars_take', 's.chars().take(n).collect::<String>()'), ('chars_skip', 's.chars().skip(n).collect::<String>()'), ('chars_next', 's.chars().next()'), ('chars_last', 's.chars().last()'), ('chars_nth', 's.chars().nth(n)'),
 ('chars_all_alnum', 's.chars().all(|x| x.is_ascii_alphanumeric())'), ('chars_any_ws', 's.chars().any(|x| x.is_whitespace())'), ('get_to', 's.get(..n)'), ('get_from', 's.get(n..)'), ('get_range', 's.get(1..n)'),
 ('parse_usize', 's.parse::<usize>().ok()'), ('parse_i64', 's.parse::<i64>().ok()'), ('parse_u8', 's.parse::<u8>().ok()'), ('parse_u16', 's.parse::<u16>().ok()'), ('parse_i32', 's.parse::<i32>().ok()'), ('parse_bool', 's.parse::<bool>().ok()'),
 ('from_str_radix16', 'u64::from_str_radix(s, 16).ok()'), ('as_bytes', 's.as_bytes().to_vec()'), ('to_owned', 's.to_owned()'), ('truncate', '{ let mut x = s.to_string(); if x.is_char_boundary(n.min(x.len())) { x.truncate(n) }; x }'),
 ('pop', '{ let mut x = s.to_string(); let p = x.pop(); (x, p) }'), ('remove0', '{ let mut x = s.to_string(); if !x.is_empty() { x.remove(0); }; x }'), ('insert_str', '{ let mut x = s.to_string(); x.insert_str(0, "ab"); x }'),
 ('bytes_sum', 's.bytes().map(|b| b as usize).sum::<usize>()'), ('bytes_max', 's.bytes().max()'), ('chars_map_upper', 's.chars().map(|c| c.to_ascii_uppercase()).collect::<String>()'),
 ('chars_filter_digit', 's.chars().filter(|c| c.is_ascii_digit()).count()'), ('chars_enumerate', 's.chars().enumerate().filter(|(i, _)| i % 2 == 0).map(|(_, c)| c).collect::<String>()'),
 ('chars_take_while', 's.chars().take_while(|c| c.is_ascii_digit()).collect::<String>()'), ('chars_skip_while', 's.chars().skip_while(|c| *c == \' \').collect::<String>()'), ('from_utf8_lossy', 'String::from_utf8_lossy(s.as_bytes()).to_string()'),
 ('std_from_utf8', 'std::str::from_utf8(s.as_bytes()).map(|x| x.len()).ok()'), ('string_from_utf8', 'String::from_utf8(s.as_bytes().to_vec()).ok()'),
]: add('sn', nm, e)
# ---- byte vectors: v: &[u8], n: usize
for nm, e in [
 ('v_len', 'v.len()'), ('v_first', 'v.first().copied()'), ('v_last', 'v.last().copied()'), ('v_get', 'v.get(n).copied()'), ('v_contains', 'v.contains(&10)'), ('v_starts_with', 'v.starts_with(&[13, 10])'), ('v_ends_with', 'v.ends_with(&[13, 10])'),
 ('v_iter_sum', 'v.iter().map(|x| *x as usize).sum::<usize>()'), ('v_iter_filter', 'v.iter().filter(|x| **x > 32).count()'), ('v_iter_fold', 'v.iter().fold(0usize, |a, b| a + *b as usize)'), ('v_iter_max', 'v.iter().copied().max()'), ('v_iter_min', 'v.iter().min().copied()'),
 ('v_position', 'v.iter().position(|x| *x == 10)'), ('v_rposition', 'v.iter().rposition(|x| *x == 10)'), ('v_windows', 'v.windows(2).filter(|w| w == &[13u8, 10u8]).count()'), ('v_chunks', 'v.chunks(2).count()'), ('v_split', 'v.split(|x| *x == 10).count()'),
 ('v_rev', 'v.iter().rev().copied().collect::<Vec<u8>>()'), ('v_skip', 'v.iter().skip(1).copied().collect::<Vec<u8>>()'), ('v_take', 'v.iter().take(n).cloned().collect::<Vec<u8>>()'), ('v_enumerate', 'v.iter().enumerate().map(|(i, x)| i + *x as usize).sum::<usize>()'),
 ('v_zip', 'v.iter().zip(v.iter().skip(1)).filter(|(a, b)| a == b).count()'), ('v_chain', 'v.iter().chain(v.iter()).count()'), ('v_to_vec', 'v.to_vec()'), ('v_concat', '[v, v].concat()'), ('v_slice_to', 'v[..n.min(v.len())].to_vec()'), ('v_slice_from', 'v[n.min(v.len())..].to_vec()'),
 ('v_push', '{ let mut x = v.to_vec(); x.push(1); x }'), ('v_extend', '{ let mut x = v.to_vec(); x.extend_from_slice(b"ab"); x }'), ('v_insert', '{ let mut x = v.to_vec(); x.insert(0, 2); x }'), ('v_truncate', '{ let mut x = v.to_vec(); x.truncate(n); x }'), ('v_pop', '{ let mut x = v.to_vec(); let p = x.pop(); (x, p) }'),
 ('v_reverse', '{ let mut x = v.to_vec(); x.reverse(); x }'), ('v_retain', '{ let mut x = v.to_vec(); x.retain(|y| *y != 10); x }'), ('v_resize', '{ let mut x = v.to_vec(); x.resize(n, 0); x }'), ('v_remove', '{ let mut x = v.to_vec(); if !x.is_empty() { x.remove(0); }; x }'),
 ('v_split_off', '{ let mut x = v.to_vec(); let y = x.split_off(n.min(x.len())); (x, y) }'), ('v_drain', '{ let mut x = v.to_vec(); let y: Vec<u8> = x.drain(..).collect(); (x, y) }'), ('v_hex', 'v.iter().map(|b| format!("{:02x}", b)).collect::<String>()'),
 ('v_is_empty', 'v.is_empty()'), ('v_eq', 'v == b"ab"'), ('v_iter_all', 'v.iter().all(|x| x.is_ascii_graphic())'), ('v_dedup', '{ let mut x = v.to_vec(); x.dedup(); x }'), ('v_swap', '{ let mut x = v.to_vec(); if x.len() > 1 { x.swap(0, 1) }; x }'),
]: add('vn', nm, e)
# ---- Option / Result: a: Option<usize>, b: Result<usize, String>
for nm, e in [
 ('o_unwrap_or', 'a.unwrap_or(7)'), ('o_unwrap_or_default', 'a.unwrap_or_default()'), ('o_unwrap_or_else', 'a.unwrap_or_else(|| 9)'), ('o_map', 'a.map(|x| x + 1)'), ('o_and_then', 'a.and_then(|x| x.checked_sub(3))'), ('o_filter', 'a.filter(|x| *x > 2)'),
 ('o_or', 'a.or(Some(5))'), ('o_xor', 'a.xor(Some(5))'), ('o_map_or', 'a.map_or(0, |x| x * 2)'), ('o_map_or_else', 'a.map_or_else(|| 1, |x| x * 2)'), ('o_ok_or', 'a.ok_or("none")'), ('o_is_some_and', 'a.is_some_and(|x| x > 2)'), ('o_zip', 'a.zip(Some(1usize))'),
 ('o_iter_count', 'a.iter().count()'), ('o_is_none', 'a.is_none()'), ('r_unwrap_or', 'b.clone().unwrap_or(7)'), ('r_unwrap_or_default', 'b.clone().unwrap_or_default()'), ('r_unwrap_or_else', 'b.clone().unwrap_or_else(|e| e.len())'), ('r_map', 'b.clone().map(|x| x + 1)'),
 ('r_map_err', 'b.clone().map_err(|e| e.len())'), ('r_and_then', 'b.clone().and_then(|x| if x > 2 { Ok(x) } else { Err("small".to_string()) })'), ('r_or_else', 'b.clone().or_else(|e| if e.is_empty() { Ok::<usize, String>(0) } else { Err(e) })'), ('r_ok', 'b.clone().ok()'), ('r_err', 'b.clone().err()'),
 ('r_is_ok_and', 'b.clone().is_ok_and(|x| x > 2)'), ('r_map_or', 'b.clone().map_or(0, |x| x * 2)'), ('r_is_err', 'b.is_err()'),
]: add('or', nm, e)
# ---- integers: a, b: u64 ; c: i32 ; x: u8
for nm, e in [
 ('checked_add', 'a.checked_add(b)'), ('checked_sub', 'a.checked_sub(b)'), ('checked_mul', 'a.checked_mul(b)'), ('checked_div', 'a.checked_div(b)'), ('checked_rem', 'a.checked_rem(b)'), ('saturating_add', 'a.saturating_add(b)'), ('saturating_sub', 'a.saturating_sub(b)'), ('saturating_mul', 'a.saturating_mul(b)'),
 ('wrapping_add', 'a.wrapping_add(b)'), ('wrapping_sub', 'a.wrapping_sub(b)'), ('wrapping_mul', 'a.wrapping_mul(b)'), ('min', 'a.min(b)'), ('max', 'a.max(b)'), ('clamp', 'a.clamp(1, 5)'), ('pow2', 'a.checked_pow(2)'), ('abs_diff', 'a.abs_diff(b)'), ('overflowing_add', 'a.overflowing_add(b)'),
 ('rem_euclid', 'a.rem_euclid(3)'), ('div_euclid', 'a.div_euclid(3)'), ('leading_zeros', 'a.leading_zeros()'), ('count_ones', 'a.count_ones()'), ('is_power_of_two', 'a.is_power_of_two()'), ('abs', 'c.checked_abs()'), ('signum', 'c.signum()'), ('is_negative', 'c.is_negative()'),
 ('unsigned_abs', 'c.unsigned_abs()'), ('checked_neg', 'c.checked_neg()'), ('i_rem_euclid', 'c.rem_euclid(3)'), ('try_from_u8', 'u8::try_from(a).ok()'), ('try_from_i32', 'i32::try_from(a).ok()'), ('try_from_usize', 'usize::try_from(a).ok()'), ('from_u8', 'u64::from(x)'), ('to_string', 'a.to_string()'),
 ('x_is_digit', 'x.is_ascii_digit()'), ('x_is_alpha', 'x.is_ascii_alphabetic()'), ('x_is_hex', 'x.is_ascii_hexdigit()'), ('x_is_ws', 'x.is_ascii_whitespace()'), ('x_is_punct', 'x.is_ascii_punctuation()'), ('x_is_graphic', 'x.is_ascii_graphic()'), ('x_is_upper', 'x.is_ascii_uppercase()'), ('x_lower', 'x.to_ascii_lowercase()'), ('x_upper', 'x.to_ascii_uppercase()'),
 ('c_to_digit', '(x as char).to_digit(16)'), ('c_from_digit', 'char::from_digit((x % 16) as u32, 16)'), ('c_from_u32', 'char::from_u32(a as u32)'), ('c_len_utf8', '(x as char).len_utf8()'), ('c_is_alphabetic', '(x as char).is_alphabetic()'), ('c_is_alnum', '(x as char).is_alphanumeric()'), ('c_is_control', '(x as char).is_control()'),
 ('as_casts', '(a as u8, a as i32, c as u64, c as u8, x as i8)'), ('shifts', '(a.wrapping_shl(3), a >> 2, a & b, a | b, a ^ b, !x)'), ('mem_swap', '{ let mut p = a; let mut q = b; std::mem::swap(&mut p, &mut q); (p, q) }'), ('mem_replace', '{ let mut p = a; let o = std::mem::replace(&mut p, b); (p, o) }'), ('mem_take', '{ let mut p = a; let o = std::mem::take(&mut p); (p, o) }'),
]: add('ux', nm, e)

for nm, e in [
 ('q_result', '{ fn f(s: &str) -> Result<usize, String> { let n = s.parse::<usize>().map_err(|_| "bad".to_string())?; Ok(n + 1) } f(s) }'),
 ('q_option', '{ fn f(s: &str, n: usize) -> Option<char> { let c = s.chars().nth(n)?; Some(c.to_ascii_uppercase()) } f(s, n) }'),
 ('q_chain', '{ fn f(s: &str) -> Result<u8, std::num::ParseIntError> { let a = s.parse::<u8>()?; let b = s.trim().parse::<u8>()?; Ok(a.wrapping_add(b)) } f(s).ok() }'),
 ('if_let_else', '{ let Some(c) = s.chars().next() else { return "none".to_string() }; c }'),
 ('match_guard', 'match s.len() { 0 => "empty", x if x < n => "short", _ => "long" }'),
 ('while_let', '{ let mut it = s.chars(); let mut k = 0; while let Some(c) = it.next() { if c == \' \' { break } k += 1 } k }'),
 ('for_range', '{ let mut k = 0usize; for i in 0..n { k += i } k }'),
 ('for_bytes', '{ let mut k = 0usize; for b in s.bytes() { k += b as usize } k }'),
 ('for_enumerate', '{ let mut k = 0usize; for (i, c) in s.chars().enumerate() { if c == \'a\' { k += i } } k }'),
 ('vec_of_strings', '{ let v: Vec<String> = s.split(\' \').map(String::from).collect(); v.len() + v.iter().map(|x| x.len()).sum::<usize>() }'),
 ('string_builder', '{ let mut o = String::new(); for (i, p) in s.split(\',\').enumerate() { if i > 0 { o.push(\';\'); } o.push_str(p.trim()); } o }'),
 ('opt_as_deref', '{ let o: Option<String> = if s.is_empty() { None } else { Some(s.to_string()) }; o.as_deref().unwrap_or("dflt").len() }'),
 ('to_owned_cmp', 's.to_string() == "abc" || s.to_owned().as_str() == "12"'),
 ('bool_then', '(s.len() > n).then(|| s.len())'), ('bool_then_some', '(s.len() > n).then_some(1u8)'),
 ('tuple_ret', '{ fn f(s: &str) -> (usize, bool) { (s.len(), s.is_empty()) } f(s) }'),
 ('slice_pattern', 'match s.as_bytes() { [] => 0, [a] => *a as usize, [a, .., b] => *a as usize + *b as usize }'),
 ('saturating_idx', 's.get(n.saturating_sub(1)..).map(|x| x.len())'),
 ('closure_direct', '{ let f = || 5usize; f() + f() }'), ('closure_capture', '{ let k = n; let f = |x: usize| x + k; f(1) + f(2) }'), ('closure_nocap_arg', '{ let f = |x: &str| x.len(); f(s) }'),
 ('fn_item_map', 's.split(\',\').map(str::trim).collect::<Vec<&str>>()'), ('fn_item_filter', 's.chars().filter(char::is_ascii_digit).count()'),
 ('ok_or_else_closure', '{ let e = || "bad".to_string(); s.split_once(\',\').ok_or_else(e).map(|x| x.0.len()) }'),
 ('opt_as_mut', '{ let mut o = Some(s.to_string()); if let Some(x) = o.as_mut() { x.push(\'!\'); }; o }'), ('opt_as_mut_none', '{ let mut o: Option<String> = None; if let Some(x) = o.as_mut() { x.push(\'!\'); }; o }'),
 ('vec_extend_vec', '{ let mut v: Vec<String> = vec![s.to_string()]; v.extend(vec!["x".to_string()]); v }'), ('vec_extend_iter', '{ let mut v: Vec<usize> = vec![1]; v.extend(s.bytes().map(|b| b as usize)); v }'), ('vec_append', '{ let mut a = vec![1u8]; let mut b = s.as_bytes().to_vec(); a.append(&mut b); (a, b) }'),
 ('string_truncate_boundary', '{ let mut x = s.to_string(); if x.is_char_boundary(n.min(x.len())) { x.truncate(n); }; x }'),
 ('enum_match', '{ let e = if n > 1 { E::A(n) } else if s.is_empty() { E::C } else { E::B(s.to_string()) }; match e { E::A(x) => x, E::B(t) => t.len() + 100, E::C => 7 } }'), ('enum_method', '{ let e = if n > 1 { E::A(n) } else if s.is_empty() { E::C } else { E::B(s.to_string()) }; e.msg() }'),
 ('enum_result_err', '{ fn f(s: &str) -> Result<usize, E> { if s.is_empty() { return Err(E::C) } Ok(s.len()) } f(s).map_err(|e| e.msg()) }'),
 ('closure_mut', '{ let mut k = 0usize; let mut f = |x: usize| { k += x; }; f(1); f(n); k }'),
]: add('sn', nm, e)

SIG = {'ss': 's: &str, t: &str', 'sc': 's: &str, c: char', 'sn': 's: &str, n: usize', 'vn': 'v: &[u8], n: usize', 'or': 'a: Option<usize>, b: Result<usize, String>', 'ux': 'a: u64, b: u64, c: i32, x: u8'}
INPUTS = {
 'ss': [('', ''), ('a', ''), ('', 'a'), ('abc', 'b'), ('a,b,,c', ','), ('abab', 'ab'), ('xabab', 'ab'), ('aaa', 'aa'), ('Hello', 'hello'), ('a\r\nb', '\r\n'), ('b', 'b'), ('ab', 'abc')],
 'sc': [('', 'a'), ('abc', 'b'), ('a,b,,c', ','), ('  x ', ' '), ('aXbXc', 'X'), ('XX', 'X'), ('k=v', '='), ('line\n', '\n')],
 'sn': [('', 0), ('abc', 1), ('abc', 3), ('abc', 5), ('  a b  ', 2), ('12', 1), ('-12', 2), ('007', 0), ('true', 1), ('ff', 1), ('AbC', 2), ('a\nb\r\nc\n', 1), ('\t x\n', 1), ('256', 0), ('99999999999999999999', 2), ('a1b2', 2), ('+5', 1)],
 'vn': [(b'', 0), (b'a', 0), (b'a', 1), (b'ab', 1), (b'a\r\nb', 2), (b'\r\n', 5), (b'aab', 2), (b'\xff\x00a', 1), (b'x\ny\n', 3)],
 'or': [(None, 'E:err'), (5, 'O:5'), (0, 'O:0'), (2, 'E:'), (3, 'O:3')],
 'ux': [(0, 0, 0, 0), (5, 3, -7, 65), (3, 5, 7, 102), (2**64 - 1, 1, -2**31, 255), (2**32, 2**32, 2**31 - 1, 48), (16, 4, -1, 32), (255, 0, 1, 10), (300, 7, 100, 95)],
}

def rust_lit(kind, inp):
    def s(x): return '"%s"' % ''.join(('\\x%02x' % ord(ch)) if (ord(ch) < 32 or ch in '"\\') else ch for ch in x)
    def b(x): return 'b"%s"' % ''.join('\\x%02x' % c for c in x)
    if kind == 'ss': return '%s, %s' % (s(inp[0]), s(inp[1]))
    if kind == 'sc': return "%s, '%s'" % (s(inp[0]), inp[1] if inp[1] not in '\n' else '\\n')
    if kind == 'sn': return '%s, %d' % (s(inp[0]), inp[1])
    if kind == 'vn': return '%s, %d' % (b(inp[0]), inp[1])
    if kind == 'or':
        a = 'None' if inp[0] is None else 'Some(%d)' % inp[0]
        r = 'Ok(%s)' % inp[1][2:] if inp[1].startswith('O:') else 'Err("%s".to_string())' % inp[1][2:]
        return '%s, %s' % (a, r)
    if kind == 'ux': return '%d, %d, %d, %d' % inp

def gen():
    out = ['#![allow(unused, unused_mut, unused_parens, clippy::all)]', 'pub enum E { A(usize), B(String), C }', 'impl E { fn msg(self) -> String { match self { E::A(x) => format!("a{}", x), E::B(t) => t, E::C => "c".to_string() } } }']
    for name, kind, expr in P:
        out.append('#[inline(never)] pub fn p_%s_%s(%s) -> String { format!("{:?}", %s) }' % (kind, name, SIG[kind], expr))
    out.append('fn main() {')
    for name, kind, expr in P:
        for i, inp in enumerate(INPUTS[kind]):
            out.append('    println!("%s_%s|%d|{}", p_%s_%s(%s));' % (kind, name, i, kind, name, rust_lit(kind, inp)))
    out.append('}')
    os.makedirs(os.path.join(HERE, 'src'), exist_ok=True)
    open(os.path.join(HERE, 'src', 'main.rs'), 'w').write('\n'.join(out) + '\n')
    open(os.path.join(HERE, 'Cargo.toml'), 'w').write('[package]\nname = "stdprobe"\nversion = "0.1.0"\nedition = "2021"\n[[bin]]\nname = "stdprobe"\npath = "src/main.rs"\n[workspace]\n')

if __name__ == '__main__':
    gen(); print(len(P), 'probe functions')
