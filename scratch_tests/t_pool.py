import sys, time
sys.path.insert(0, '/verif')
from mirse import mir as M, pool
prog, info = M.load_program(deps=())
w = pool.extract_worker(prog)
for t in w['traces']: print(t)
print(pool.extract_new(prog))
print(pool.extract_execute(prog))
a = pool.Automaton(w['traces']); print(a.describe())
for N, jobs, q in [(2, ['rv','rv'], 'stuck'), (2, ['instant']*3, 'stuck'), (2, ['instant']*2, 'double'), (2, ['instant']*2, 'long')]:
    K = len(jobs) * 6 + N * 2 + 2
    t = time.time(); print(N, jobs, q, K, pool.bmc(a, N, jobs, K, q), round(time.time()-t,1))
