import sys, time
sys.path.insert(0, '/verif')
from mirse import mir as M, pool
prog, info = M.load_program(deps=())
w = pool.extract_worker(prog)
a = pool.Automaton(w['traces'])
import itertools
for N, jobs in [(1,['instant']*2),(2,['rv','rv']),(2,['instant']*3),(2,['rv','rv','instant']),(3,['rv']*3),(3,['instant']*4),(3,['rv']*3+['instant'])]:
    K = len(jobs) * 6 + N * 4 + 2
    for q in ('double','stuck','long'):
        t = time.time(); r = pool.bmc(a, N, jobs, K, q, timeout_ms=60000); print(N, jobs, q, K, r[0], round(time.time()-t,1), flush=True)
