import sys, time, collections
sys.path.insert(0, '/verif'); sys.path.insert(0, '/verif/checks')
from appsweep import *
prog, info = M.load_program() if False else (None, None)
from mirse import mir as M
prog, info = M.load_program()
ex = new_ex(prog)
st = State()
req = b'GET /a HTTP/1.1\r\nHost: x\r\n\r\n'
st.world['env'] = dict(CORS_ENV_ALLOW_ALL)
st.world['fs'] = ENV.new_fs(content_cap=2)
st.world['stream'] = {'input': S(req)}
st.world['app_mode'] = 'real'
kinds = collections.Counter()
def term(o):
    io = o.world.get('io', ())
    kinds[(o.outcome[0], str(o.outcome[1])[:60] if o.outcome[0] != 'return' else o.outcome[1].variant, str(o.outcome[2])[-40:] if len(o.outcome) > 2 else '', tuple(e[0] + (':' + str(e[1]) if e[0] in ('read','flush') else '') for e in io))] += 1
t = time.time()
try:
    ex.run_fn('Server::process', [Opaque('Stream'), conn_info(len(req)), Struct('App', ())], st, on_terminal=term)
finally:
    print('time', round(time.time() - t, 1), {k: ex.stats[k] for k in ('paths', 'queries', 'solver_s', 'steps')})
    for k, v in kinds.most_common(20): print(v, k)
