import sys, time, faulthandler, signal
faulthandler.register(signal.SIGUSR1)
sys.path.insert(0, '/verif'); sys.path.insert(0, '/verif/checks')
from common import *
from mirse import mir as M, models, envmodels
N = int(sys.argv[1]) if len(sys.argv) > 1 else 4
prog, info = M.load_program()
from mirse import lemmas
ex = Executor(prog, lemmas.with_stubs(models.REGISTRY, ["filter_string"]), solver_timeout_ms=20000); ex.slow_query_s=2
import re
def havoc_str(ex_, st_, fn, args):
    cons=[]; v=SymStr.fresh(ex_.fresh('hv'), 4, cons, alphabet=lambda b: z3.And(z3.UGE(b,0x20), z3.ULE(b,0x7e))); st_.pc.extend(cons); return v
ex.havoc_fns=[(re.compile(r'detect_mime_type$'), havoc_str)]
ex.memo_fns=[re.compile(r'^parse_url$'), re.compile(r'URL::parse$|url::<impl.*>::parse$')]
cons = []
uri = SymStr.fresh('uri', N, cons, minlen=1, alphabet=lambda b: z3.And(z3.UGE(b, 0x21), z3.ULE(b, 0x7e)))
req = request('GET', uri, [])
conn = Struct('ConnectionInfo', (Struct('Address', (S('1.2.3.4'), Int('i32', 5))), Struct('Address', (S('1.2.3.4'), Int('i32', 80))), Int('i64', 64)))
st = State(); st.pc = list(cons)
st.world['env'] = {b'RWS_CONFIG_CORS_ALLOW_ALL': S('true')}
st.world['fs'] = envmodels.new_fs(content_cap=3)
t = time.time()
import collections
kinds = collections.Counter()
def term(o):
    if sum(kinds.values()) % 20 == 0: print('..', sum(kinds.values()), round(time.time()-t,1), ex.stats['queries'], round(ex.stats['solver_s'],1), file=sys.stderr)
    kinds[(o.outcome[0], str(o.outcome[1])[:80] if o.outcome[0] != 'return' else 'ret', str(o.outcome[2])[-60:] if len(o.outcome)>2 else '')] += 1
try:
    ex.run_fn('<App as Application>::execute', [Struct('App', ()), req, conn], st, on_terminal=term)
finally:
    print('time', time.time() - t, ex.stats)
    for k, v in kinds.most_common(40): print(v, k)
