import sys, itertools
sys.path.insert(0, '/verif')
import z3
from mirse.sym import *
from mirse.engine import *
from mirse import models
class C: pass
class FakeEx:
    def deref(self, st, v): return v
cons=[]
s = SymStr.fresh('p', 3, cons)
bad = 0; n = 0
def run(callee, pat, ref):
    global bad, n
    c = C(); c.args=[s, pat]; c.callee='core::str::<impl str>::'+callee
    fn = models.m_trim_matches if 'trim' in callee else (models.m_starts_with if 'starts' in callee else models.m_ends_with)
    r = fn(FakeEx(), None, c)
    for L in range(4):
        for t in itertools.product(b'a\r\n', repeat=L):
            sol = z3.Solver(); sol.add(cons); sol.add(s.flat().ln==L)
            for i,ch in enumerate(t): sol.add(s.flat().bs[i]==ch)
            assert sol.check()==z3.sat; m=sol.model()
            if isinstance(r, SymStr): got = model_bytes(m, r)
            elif isinstance(r, bool): got = r
            else: got = z3.is_true(m.eval(r, model_completion=True))
            exp = ref(bytes(t)); n += 1
            if got != exp: bad += 1; print('MISMATCH', callee, bytes(t), got, exp)
cs = Vec([Int('char', 13), Int('char', 10)])
run('trim_end_matches::<&[char]>', cs, lambda b: b.rstrip(b'\r\n'))
run('trim_start_matches::<&[char]>', cs, lambda b: b.lstrip(b'\r\n'))
run('trim_matches::<&[char]>', cs, lambda b: b.strip(b'\r\n'))
run('trim_end_matches::<char>', Int('char', 10), lambda b: b.rstrip(b'\n'))
def rs(b):
    while b.endswith(b'\r\n'): b = b[:-2]
    return b
def ls(b):
    while b.startswith(b'\r\n'): b = b[2:]
    return b
run('trim_end_matches::<&str>', SymStr.const(b'\r\n'), rs)
run('trim_start_matches::<&str>', SymStr.const(b'\r\n'), ls)
run('starts_with::<&[char]>', cs, lambda b: b[:1] in (b'\r', b'\n'))
run('ends_with::<char>', Int('char', 10), lambda b: b.endswith(b'\n'))
run('ends_with::<&str>', SymStr.const(b'a\n'), lambda b: b.endswith(b'a\n'))
print('cases', n, 'mismatches', bad)
