import sys, random
sys.path.insert(0, '/verif')
import z3
from mirse.sym import *
from mirse import models
random.seed(1)
for trial in range(300):
    n = random.randint(0, 7)
    alpha = b'%20ab'
    t = bytes(random.choice(alpha) for _ in range(n))
    frm, to = random.choice([(b'%20', b' '), (b'a', b'xyz'), (b'%2', b''), (b'aa', b'b'), (b'ab', b'ba')])
    cons = []
    s = SymStr.fresh('s%d' % trial, 7, cons)
    r = models.replace_str(s, SymStr.const(frm), SymStr.const(to))
    sol = z3.Solver(); sol.add(cons); sol.add(s.flat().ln == n)
    for i, ch in enumerate(t): sol.add(s.flat().bs[i] == ch)
    assert sol.check() == z3.sat
    got = model_bytes(sol.model(), r)
    exp = t.replace(frm, to)
    assert got == exp, (t, frm, to, got, exp)
    # also exact-length variant
    s2 = SymStr.fresh('q%d' % trial, 7, cons, exact_len=n)
    r2 = models.replace_str(s2, SymStr.const(frm), SymStr.const(to))
    sol = z3.Solver(); sol.add(cons)
    for i, ch in enumerate(t): sol.add(s2.flat().bs[i] == ch)
    assert sol.check() == z3.sat
    assert model_bytes(sol.model(), r2) == exp, (t, frm, to)
print('replace ok')
