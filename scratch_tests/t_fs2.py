import sys
sys.path.insert(0, '/verif')
from mirse import mir as M, models
from mirse.sym import *
from mirse.engine import *
prog, info = M.load_program()
ex = Executor(prog, models.REGISTRY)
orig = ex.do_call
def dc(st, fr, stt):
    r = orig(st, fr, stt)
    if stt[1] and not stt[1][1] and stt[1][0] in fr.locals: print(str(stt[2])[:70], '->', fr.locals.get(stt[1][0]))
    return r
ex.do_call = dc
outs = ex.run_fn('FilterString::is_valid_input_string', [SymStr.const(b'  _ ')], State())
