import sys, time, collections
sys.path.insert(0, '/verif'); sys.path.insert(0, '/verif/checks')
from common import *
from mirse import mir as M, models
N = int(sys.argv[1])
prog, info = M.load_program(deps=())
ex = Executor(prog, models.REGISTRY)
cons = []
tail = SymStr.fresh('t', N, cons)
data = S('GET / HTTP/1.1\r\n').concat(tail)
st = State(); st.pc = list(cons)
t = time.time()
kinds = collections.Counter()
def term(o): kinds[(o.outcome[0], str(o.outcome[1])[:70] if o.outcome[0] != 'return' else o.outcome[1].variant, str(o.outcome[2])[-50:] if len(o.outcome) > 2 else '')] += 1
try:
    ex.run_fn('Request::parse', [data], st, on_terminal=term)
finally:
    print('time', round(time.time() - t, 1), {k: ex.stats[k] for k in ('paths', 'queries', 'solver_s', 'steps')})
    for k, v in kinds.most_common(12): print(v, k)
