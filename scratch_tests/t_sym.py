import sys
sys.path.insert(0, '/verif')
from mirse import mir as M, models
from mirse.sym import *
from mirse.engine import *
prog, info = M.load_program()
ex = Executor(prog, models.REGISTRY)
for cr in ('rws','file-ext'):
    f = prog.get('SYMBOL', cr); print(cr, f, f.crate)
    v = ex.eval_const_item('SYMBOL', cr); print([x.concrete() for x in v.fields])
