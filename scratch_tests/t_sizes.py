import sys, time
sys.path.insert(0, '/verif'); sys.path.insert(0, '/verif/checks')
from common import *
from mirse import mir as M, models, envmodels, lemmas
prog, info = M.load_program()
ex = Executor(prog, lemmas.with_stubs(models.REGISTRY, ["filter_string"]), solver_timeout_ms=20000)
def dag_size(terms):
    seen=set(); stack=[t for t in terms if not isinstance(t,int)]
    while stack:
        t=stack.pop()
        i=t.get_id()
        if i in seen: continue
        seen.add(i); stack.extend(t.children())
    return len(seen)
def ssize(v):
    if isinstance(v, SymStr):
        return 'segs=%d cap=%d dag=%d lenconc=%s' % (len(v.segs), v.cap, dag_size([b for a in v.segs for b in a.bs]+[a.ln for a in v.segs]), isinstance(v.length(), int))
    return None
orig = ex.do_call
def dc(st, fr, stt):
    r = orig(st, fr, stt)
    fr2 = st.frames[-1] if st.frames else None
    if stt[1] and not stt[1][1] and stt[1][0] in fr.locals:
        v = fr.locals.get(stt[1][0])
        if isinstance(v, Enum) and v.fields: v = v.fields[0]
        z = ssize(v)
        if z and 'dag=0' not in z: print(short_name(fr.fn.name)[-30:], str(stt[2])[:60], '->', z)
    return r
ex.do_call = dc
cons = []
uri = SymStr.fresh('uri', 2, cons, minlen=1, alphabet=lambda b: z3.And(z3.UGE(b, 0x21), z3.ULE(b, 0x7e)))
st = State(); st.pc = list(cons)
outs = ex.run_fn('URL::parse', [S('http://localhost').concat(uri)], st)
print(len(outs))
