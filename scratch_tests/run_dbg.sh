#!/bin/sh
# usage: run_dbg.sh <seconds> <python args...> ; dumps python stack after <seconds> then kills
secs=$1; shift
python3-vt -X faulthandler -c "
import faulthandler, signal, sys, runpy
faulthandler.register(signal.SIGUSR1)
sys.argv = sys.argv[1:]
sys.path.insert(0, '/verif/checks')
runpy.run_path(sys.argv[0], run_name='__main__')
" "$@" > /tmp/dbg.log 2>&1 &
pid=$!
sleep $secs
kill -USR1 $pid 2>/dev/null; sleep 1; kill $pid 2>/dev/null
grep -A14 "most recent call first" /tmp/dbg.log | head -40
tail -5 /tmp/dbg.log
