import sys
sys.path.insert(0, '/verif')
import z3
from mirse.sym import *
from mirse.engine import *
from mirse import models
class C: pass
ex = Executor.__new__(Executor)
cons=[]
s = SymStr.fresh('p', 4, cons)
c = C(); c.args=[s]; c.callee='core::str::<impl str>::trim'
class FakeEx:
    def deref(self, st, v): return v
r = models.m_trim(FakeEx(), None, c)
sol = z3.Solver(); sol.add(cons)
for i,ch in enumerate(b'  _ '): sol.add(s.flat().bs[i]==ch)
sol.add(s.flat().ln==4)
print(sol.check()); m=sol.model(); print(model_bytes(m, r))
