import sys, time
sys.path.insert(0, '/verif')
from mirse import mir as M, lemmas
prog, info = M.load_program()
t=time.time(); print(lemmas.lemma_filter_string(prog, int(sys.argv[1]))); print(time.time()-t)
