import sys, time
sys.path.insert(0, '/verif')
import z3
from mirse import mir as M
from mirse.sym import *
from mirse.engine import *
from mirse import models

prog, info = M.load_program()
print(info)
ex = Executor(prog, models.REGISTRY)
cons = []
origin = SymStr.fresh('origin', 6, cons, ascii_only=True)
def hdr(n, v): return Struct('Header', (SymStr.const(n), v))
req = Struct('Request', (SymStr.const('GET'), SymStr.const('/'), SymStr.const('HTTP/1.1'), Vec([hdr('Origin', origin)]), SymStr(())))
cors = Struct('Cors', (False, Vec([SymStr.const('http://a'), SymStr.const('b.c')]), Vec([SymStr.const('GET')]), Vec([SymStr.const('X-A')]), True, Vec([]), SymStr.const('10')))
st = State(); st.pc = list(cons)
t = time.time()
outs = ex.run_fn('Cors::_process', [req, cors], st)
print('paths', len(outs), 'time', time.time() - t, ex.stats)
for o in outs:
    print(o.outcome[0], o.outcome[1] if o.outcome[0] != 'return' else o.outcome[1].variant, len(o.pc))
    if o.outcome[0] == 'return':
        hs = o.outcome[1].fields[0].items
        if hs:
            # is there a model where origin not in list?
            notin = z3.And(z3.Not(zb(origin.eq(SymStr.const('http://a')))), z3.Not(zb(origin.eq(SymStr.const('b.c')))))
            r, m = ex.check(o.pc, notin)
            print('  grant with origin not in list:', r, model_bytes(m, origin) if m else None)
