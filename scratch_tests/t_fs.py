import sys
sys.path.insert(0, '/verif')
from mirse import mir as M, models
from mirse.sym import *
from mirse.engine import *
prog, info = M.load_program()
ex = Executor(prog, models.REGISTRY)
for t in [b'  _ ', b'a b', b'ab', b' a', b'a\x01 b', b"a'"]:
    outs = ex.run_fn('FilterString::is_valid_input_string', [SymStr.const(t)], State())
    print(t, [o.outcome for o in outs])
