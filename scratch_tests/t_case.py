import sys, time, json, importlib
sys.path.insert(0, '/verif'); sys.path.insert(0, '/verif/checks')
from mirse import harness as H, mir as M
mod = importlib.import_module(sys.argv[1])
params = json.loads(sys.argv[2])
prog, info = M.load_program()
H._G['prog'] = prog
t = time.time()
r = mod.case(prog, params)
print('wall', round(time.time() - t, 1), {k: v for k, v in r.items() if k in ('kinds', 'stats', 'reads', 'accesses')})
import os
if os.environ.get('MIRSE_FORK_SITES'):
    from mirse import engine
    fs = H._G.get('last_ex').fork_sites if H._G.get('last_ex') else {}
    for k, v in sorted(fs.items(), key=lambda x: -x[1])[:25]: print(v, k)
for v in r.get('violations', [])[:6]: print('V', v.get('key'), v.get('text'))
for v in r.get('inconclusive', [])[:4]: print('I', v)
print({k: r[k] for k in ('served', 'pairs', 'wire_pairs', 'compared') if k in r})
