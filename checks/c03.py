#!/usr/bin/env python3
"""C03 -- byte-range requests return exactly the requested bytes.  Engine S.
Kernel: Range::parse_content_range -> Range::parse_range_in_content_range -> file_ext read_file_partially (arithmetic from
MIR, seek/take/read by contract).  The Range header text is built from symbolic one-digit numbers, so the RFC 7233
reference (written here) knows what was asked; the file is symbolic (length 0..cap, arbitrary bytes)."""
from appsweep import *

PATH = b'/r/f.bin'


def plan(t):
    q = t == 'quick'
    return dict(content_cap=3 if q else 5, garbage_lens=(1, 2, 3) if q else (1, 2, 3, 4, 5),
                forms=['a-b', 'a-', '-n', 'a-b,c-d', 'a-,-n'] if q else ['a-b', 'a-', '-n', 'a-b,c-d', 'a-,-n', '-n,a-b', 'a-b,c-', 'a-b, c-d'])


def digit(name, cons):
    d = z3.BitVec(name, 64)
    cons.append(z3.ULE(d, 9))
    return d


def dstr(d):
    return SymStr((Atom(1, (z3.Extract(7, 0, d) + 48,)),))


def rfc(form_spec, L):
    """reference for one spec: (satisfiable: z3 Bool, first, last) with last clamped to L-1"""
    kind = form_spec[0]
    if kind == 'ab':
        a, b = form_spec[1], form_spec[2]
        sat = z3.And(z3.ULT(a, L), z3.ULE(a, b))
        last = z3.If(z3.ULT(b, L), b, L - 1)
        return sat, a, last
    if kind == 'a':
        a = form_spec[1]
        return z3.ULT(a, L), a, L - 1
    n = form_spec[1]
    sat = z3.And(n != 0, L != 0)
    first = z3.If(z3.ULT(n, L), L - n, z3.BitVecVal(0, 64))
    return sat, first, L - 1


def build_header(form, cons):
    specs = []; segs = [S('bytes=')]
    names = iter('abcdefgh')
    i = 0
    toks = _tokens(form)
    for tk in toks:
        if tk in (',', ', '):
            segs.append(S(tk)); continue
        if tk == 'x-y':
            a = digit('d%d' % i, cons); b = digit('d%d' % (i + 1), cons); i += 2
            segs += [dstr(a), S('-'), dstr(b)]; specs.append(('ab', a, b))
        elif tk == 'x-':
            a = digit('d%d' % i, cons); i += 1
            segs += [dstr(a), S('-')]; specs.append(('a', a))
        elif tk == '-x':
            n = digit('d%d' % i, cons); i += 1
            segs += [S('-'), dstr(n)]; specs.append(('n', n))
    return SymStr.join(segs), specs


def _tokens(form):
    out = []
    for part in form.replace(', ', '\x00').replace(',', '\x01').replace('\x00', '\x02, \x02').replace('\x01', '\x02,\x02').split('\x02'):
        if part in (',', ', '): out.append(part)
        elif part.startswith('-'): out.append('-x')
        elif part.endswith('-'): out.append('x-')
        else: out.append('x-y')
    return out


def mk_state(P, cons):
    st = State(); st.pc = list(cons)
    def on_new(ent):
        return [ent.kind == ENV.K_FILE]
    st.world['fs'] = ENV.new_fs(content_cap=P['content_cap'], on_new=on_new)
    st.world['env'] = {}
    return st


def part_fields(cr):
    unit, rng, size, body, ctype = cr.fields
    return rng.fields[0], rng.fields[1], size, body


def case(prog, params):
    P = plan(H.tier())
    ex = new_ex(prog)
    cons = []
    res = {'violations': [], 'inconclusive': [], 'samples': [], 'kinds': {}, 'ok_parts': 0}
    st = mk_state(P, cons)
    # the file: create its entry up front so that L is the length of the same content the reads return
    ent = ENV.fs_lookup(ex, st, S(PATH), 'setup')
    st.world['fslog'] = ()
    content = ent.content; L = content.lnz()
    if params['ob'] == 'forms':
        hv, specs = build_header(params['form'], cons)
    else:
        g = SymStr.fresh('g', params['glen'], cons, exact_len=params['glen'], alphabet=[ord(c) for c in '0123456789-, =b'])
        hv = S('bytes=').concat(g); specs = None
    st.pc.extend(cons)
    Lint = Int('u64', content.length())

    def witness(m, extra=None):
        w = {'header': model_bytes(m, hv).decode('latin1'), 'content': model_bytes(m, content).hex(), 'ob': params['ob']}
        if extra: w.update(extra)
        return w

    def classify(label, w):
        hvs = w['header'][6:]
        Lc = len(bytes.fromhex(w['content']))
        cls = ''
        if label in ('label-names-offset-outside-sent-bytes', 'body-is-not-the-labelled-slice', 'part-differs-from-rfc7233-reference'):
            # role: which spec form produced the part whose last offset equals the file length
            part = hvs.split(',')[w.get('part_index', 0)].strip() if w.get('part_index', 0) < len(hvs.split(',')) else hvs
            if part.endswith('-'): cls = ':open-ended-spec'
            elif part.startswith('-'): cls = ':suffix-spec'
            elif part.split('-')[-1].isdigit() and int(part.split('-')[-1]) == Lc: cls = ':last-equals-file-length'
            else: cls = ':other'
        return 'C03:' + label + cls

    def term(o):
        k = outcome_kind(o.outcome) + (':' + o.outcome[1].variant if o.outcome[0] == 'return' else ''); res['kinds'][k] = res['kinds'].get(k, 0) + 1
        if o.outcome[0] == 'panic':
            r, m = ex.check(o.pc)
            if r == 'sat':
                w = witness(m)
                res['violations'].append({'key': 'C03:panic:' + _re_fn(o), 'text': 'Range::parse_content_range panics (%s) for %r on a %d-byte file' % (o.outcome[1], w['header'], len(w['content']) // 2), 'witness': w})
            return
        if o.outcome[0] != 'return':
            if not o.outcome[1].startswith('domain:'): res['inconclusive'].append({'status': o.outcome[1], 'error': str(o.outcome[2])[:200]})
            return
        v = o.outcome[1]
        checks = []
        if v.variant == 'Ok':
            parts = v.fields[0].items
            res['ok_parts'] += len(parts)
            for pi, cr in enumerate(parts):
                s_, e_, size, body = part_fields(cr)
                sv, evv = s_.v, e_.v
                if isinstance(sv, int): sv = bvval(sv, 64)
                if isinstance(evv, int): evv = bvval(evv, 64)
                # (i) internal consistency: the label s-e/size names exactly the bytes sent
                checks.append(('label-names-offset-outside-sent-bytes', z3.Or(z3.UGE(evv, L), z3.UGT(sv, evv)), pi))
                blen = body.lnz()
                exp_body = content.substr(s_.v, bv_sub(bv_add(e_.v, 1, LW), s_.v, LW)) if True else None
                inside = z3.And(z3.ULT(evv, L), z3.ULE(sv, evv))
                checks.append(('body-is-not-the-labelled-slice', z3.And(inside, z3.Not(zb(body.eq(exp_body)))), pi))
                # parts labelled one past the end (the known off-by-one label, see known_findings) must still carry exactly the bytes
                # from the labelled start to the end of the file -- "never bytes from other offsets"
                clamp = z3.And(z3.UGE(evv, L), z3.ULE(sv, L))
                exp_tail = content.substr(s_.v, bv_sub(content.length(), s_.v, LW))
                checks.append(('bytes-from-other-offsets', z3.And(clamp, z3.Not(zb(body.eq(exp_tail)))), pi))
                from mirse.models import parse_int
                okp, szv = parse_int(size, 'u64')
                checks.append(('size-is-not-the-file-length', b_or(b_not(okp), b_not(bv_eq(szv.v, content.length(), LW))) if okp is not False else True, pi))
            if specs is not None:
                # (ii) against the RFC reference: every spec satisfiable -> one part per spec, in order, with the reference offsets
                refs = [rfc(sp, L) for sp in specs]
                allsat = z3.And([r[0] for r in refs])
                if len(parts) != len(specs):
                    checks.append(('satisfiable-ranges-yield-%d-parts-for-%d-specs' % (len(parts), len(specs)), allsat, 0))
                else:
                    for pi, (cr, (rs, rf, rl)) in enumerate(zip(parts, refs)):
                        s_, e_, size, body = part_fields(cr)
                        sv = bvval(s_.v, 64) if isinstance(s_.v, int) else s_.v; evv = bvval(e_.v, 64) if isinstance(e_.v, int) else e_.v
                        checks.append(('part-differs-from-rfc7233-reference', z3.And(allsat, z3.Or(sv != rf, evv != rl)), pi))
        else:
            if specs is not None:
                refs = [rfc(sp, L) for sp in specs]
                checks.append(('in-file-range-rejected', z3.And([r[0] for r in refs] + [z3.And([z3.ULT(sp[2], L) for sp in specs if sp[0] == 'ab'] + [z3.BoolVal(True)])]), 0))
        for label, bad, pi in checks:
            bad = simp_bool(bad) if not isinstance(bad, bool) else bad
            if bad is False: continue
            r, m = ex.check(o.pc, bad)
            if r == 'unknown': res['inconclusive'].append({'status': 'solver-unknown', 'error': label}); continue
            if r == 'sat':
                w = witness(m, {'part_index': pi, 'label': label})
                res['violations'].append({'key': classify(label, w), 'text': '%s: Range %r on a %d-byte file' % (label, w['header'], len(w['content']) // 2), 'witness': w})
    ex.run_fn('Range::parse_content_range', [S(PATH), Lint, hv], st, on_terminal=term)
    res.update(H.ex_summary(ex))
    res['samples'].append({'case': params, 'kinds': res['kinds'], 'parts_checked': res['ok_parts']})
    return res


def _re_fn(o):
    import re
    fn = re.sub(r'@bb\d+', '', o.outcome[2].split(' > ')[-1]) if len(o.outcome) > 2 and o.outcome[2] else '?'
    return re.sub(r'<[^>]*>::', '', fn)


def native(chk, w):
    import tempfile, shutil
    base = tempfile.mkdtemp(prefix='c03_')
    try:
        open(os.path.join(base, 'f.bin'), 'wb').write(bytes.fromhex(w['content']))
        st, out = chk.oracle.run([('range_parse', [os.path.join(base, 'f.bin').encode(), len(bytes.fromhex(w['content'])), w['header'].encode('latin1')])])[0]
        parts = []
        if st == 'ok':
            for i in range(0, len(out), 4):
                parts.append((int(out[i]), int(out[i + 1]), out[i + 2].decode(), out[i + 3]))
        return st, parts, (out[0].decode('latin1') if st in ('err', 'panic') and out else '')
    finally:
        shutil.rmtree(base, ignore_errors=True)


def py_rfc(header, L):
    """concrete RFC 7233 reference: list of (first,last) or None when some spec is unsatisfiable/malformed"""
    if not header.startswith('bytes='): return None
    out = []
    for spec in header[6:].split(','):
        spec = spec.strip()
        import re
        m = re.match(r'^(\d*)-(\d*)$', spec)
        if not m: return None
        a, b = m.group(1), m.group(2)
        if a == '' and b == '': return None
        if a == '':
            n = int(b)
            if n == 0 or L == 0: return None
            out.append((max(0, L - n), L - 1))
        else:
            a = int(a)
            if a >= L: return None
            if b == '': out.append((a, L - 1))
            else:
                b = int(b)
                if a > b: return None
                out.append((a, min(b, L - 1)))
    return out


def main():
    chk = H.Check('C03', 'byte ranges: exact bytes, correct labels')
    prog = chk.load()
    P = plan(chk.tier); chk.bounds = dict(P, numbers='one decimal digit each (0..9)', file='length 0..content_cap, arbitrary bytes')
    lem = lemmas.lemma_filter_string(prog, 5); chk.extra['lemmas'] = [lem]
    chk.assumptions = ['seek/take/read_to_end return content[start .. min(start+n, len)) (std contract); the file length passed in is the length of the content read',
                       'detect_mime_type uninterpreted; FilterString::is_valid_input_string replaced by its proved spec']
    cases = [dict(ob='forms', form=f) for f in P['forms']] + [dict(ob='garbage', glen=n) for n in P['garbage_lens']]
    results = chk.run_cases(case, cases, label='Range::parse_content_range')
    chk.extra['parts_checked'] = sum(r.get('ok_parts', 0) for r in results)

    def replay(v):
        w = v['witness']
        st, parts, msg = native(chk, w)
        content = bytes.fromhex(w['content']); L = len(content)
        if v['key'].startswith('C03:panic'): return {'reproduced': st == 'panic', 'native': st, 'msg': msg}
        if st != 'ok':
            ref = py_rfc(w['header'], L)
            return {'reproduced': ref is not None and 'rejected' in v['key'], 'native': st, 'reference': ref}
        bad = []
        for (s_, e_, size, body) in parts:
            if e_ >= L or s_ > e_ or body != content[s_:e_ + 1] or size != str(L): bad.append((s_, e_, size, body.hex()))
        ref = py_rfc(w['header'], L)
        differs = ref is not None and [(p[0], p[1]) for p in parts] != ref
        return {'reproduced': bool(bad) or differs, 'native_parts': [(p[0], p[1], p[2], p[3].hex()) for p in parts], 'reference': ref}
    chk.finish(replay_fn=replay, vacuity=lambda: None if chk.extra['parts_checked'] else 'no Ok result with parts was ever produced')


if __name__ == '__main__':
    main()
