#!/usr/bin/env python3
"""C16 -- multipart/form-data bodies round-trip part for part.  Engine S.
Kernel: FormMultipartData::generate, generate_part, parse, parse_form_part_recursively, find_subsequence,
Header::parse_header, Header::as_string, StringExt helpers."""
from common import *
from mirse import models as MODELS


def plan(t):
    q = t == 'quick'
    return dict(boundaries=['b', '-b', 'a-b'] if q else ['b', '-b', 'a-b', '--x'], body_lens=(0, 1, 2) if q else (0, 1, 2, 3), two_part_body_lens=(0, 1) if q else (0, 1, 2), name_lens=(1,) if q else (1, 2), value_lens=(1, 2))


def header_name_byte(b): return z3.Or(z3.And(z3.UGE(b, 65), z3.ULE(b, 90)), z3.And(z3.UGE(b, 97), z3.ULE(b, 122)))


def header_value_byte(b): return z3.And(z3.UGE(b, 0x21), z3.ULE(b, 0x7e), b != 0x3a)


def mk_parts(params, cons, boundary):
    parts = []; syms = []
    for i, (nl, vl, bl) in enumerate(params['parts']):
        n = SymStr.fresh('n%d' % i, nl, cons, exact_len=nl, alphabet=header_name_byte)
        v = SymStr.fresh('v%d' % i, vl, cons, exact_len=vl, alphabet=header_value_byte)
        # single-part cases: arbitrary body bytes (incl. CR, LF, dashes); multi-part cases: bodies without line breaks (stated bound)
        b = (SymStr.fresh('b%d' % i, bl, cons, exact_len=bl, **({'alphabet': printable} if len(params['parts']) > 1 else {})) if bl else SymStr(()))
        # the boundary does not occur in the data
        for s in (n, v, b):
            occ = s.contains(boundary.encode())
            if occ is not False: cons.append(z3.Not(zb(occ)))
        parts.append(Struct('Part', (Vec([header(n, v)]), b))); syms.append((n, v, b))
    return parts, syms


def case(prog, params):
    ex = H.new_executor(prog, max_block_visits=200)
    cons = []
    boundary = params['boundary']
    parts, syms = mk_parts(params, cons, boundary)
    st = State(); st.pc = list(cons)
    res = {'violations': [], 'inconclusive': [], 'samples': [], 'kinds': {}, 'compared': 0}

    def wit(m):
        return {'boundary': boundary, 'mode': params['mode'], 'parts': [(model_bytes(m, n).decode('latin1'), model_bytes(m, v).decode('latin1'), model_bytes(m, b).hex()) for n, v, b in syms]}
    gen = ex.run_fn('FormMultipartData::generate', [Vec(parts), S(boundary)], st)
    for g in gen:
        if g.outcome[0] != 'return' or g.outcome[1].variant != 'Ok':
            k = 'generate:' + outcome_kind(g.outcome); res['kinds'][k] = res['kinds'].get(k, 0) + 1
            r, m = ex.check(g.pc)
            if r == 'sat': res['violations'].append({'key': 'C16:generate-fails', 'text': 'FormMultipartData::generate fails: %r' % (g.outcome[:2],), 'witness': wit(m)})
            continue
        data = g.outcome[1].fields[0]
        mode = params['mode']
        if mode == 'no-open':
            data = data.drop(len(boundary) + 2)
        elif mode == 'no-close':
            n = data.length()
            data = data.take(bv_sub(n, len(boundary), LW)) if not isinstance(n, int) else data.take(n - len(boundary))
        st2 = State(); st2.pc = list(g.pc)
        outs = ex.run_fn('FormMultipartData::parse', [data, S(boundary)], st2)
        for o in outs:
            k = 'parse:' + outcome_kind(o.outcome) + (':' + o.outcome[1].variant if o.outcome[0] == 'return' else ''); res['kinds'][k] = res['kinds'].get(k, 0) + 1
            if o.outcome[0] == 'panic':
                r, m = ex.check(o.pc)
                if r == 'sat': res['violations'].append({'key': 'C16:parse-panics', 'text': 'FormMultipartData::parse panics (%s)' % o.outcome[1], 'witness': wit(m)})
                continue
            if o.outcome[0] != 'return':
                if not o.outcome[1].startswith('domain:'): res['inconclusive'].append({'status': o.outcome[1], 'error': str(o.outcome[2])[:200]})
                continue
            v_ = o.outcome[1]
            if mode != 'roundtrip':
                if v_.variant == 'Ok':
                    r, m = ex.check(o.pc)
                    if r == 'sat': w = wit(m); res['violations'].append({'key': 'C16:accepts-body-%s%s' % (mode, classify(w)), 'text': 'parse accepts a body with %s boundary: %r' % (mode, w), 'witness': w})
                continue
            if v_.variant != 'Ok':
                r, m = ex.check(o.pc)
                if r == 'sat':
                    w = wit(m)
                    res['violations'].append({'key': 'C16:generated-body-rejected' + classify(w), 'text': 'parse(generate(parts)) is Err for %r' % (w,), 'witness': w})
                continue
            got = v_.fields[0].items
            res['compared'] += 1
            checks = []
            if len(got) != len(parts): checks.append(('part-count-%d-for-%d' % (len(got), len(parts)), True))
            else:
                for i, (p, (n, v, b)) in enumerate(zip(got, syms)):
                    hs, body = p.fields
                    if len(hs.items) != 1: checks.append(('header-count', True))
                    else:
                        checks.append(('header-name', b_not(hs.items[0].fields[0].eq(n)))); checks.append(('header-value', b_not(hs.items[0].fields[1].eq(v))))
                    checks.append(('body', b_not(body.eq(b))))
            for label, bad in checks:
                bad = simp_bool(bad) if not isinstance(bad, bool) else bad
                if bad is False: continue
                r, m = ex.check(o.pc, bad)
                if r == 'unknown': res['inconclusive'].append({'status': 'solver-unknown', 'error': label}); continue
                if r == 'sat':
                    w = wit(m)
                    res['violations'].append({'key': 'C16:roundtrip-%s%s' % (_strip(label), classify(w)), 'text': 'parse(generate(parts)) differs in %s for %r' % (label, w), 'witness': w})
    res.update(H.ex_summary(ex))
    res['samples'].append({'case': params, 'kinds': res['kinds'], 'results_compared': res['compared']})
    return res


def _strip(label):
    import re
    return re.sub(r'-\d+-for-\d+', '', label)


def classify(w):
    """role of the failing input"""
    esc = w['boundary'].replace('-', '')
    bodies = [bytes.fromhex(p[2]) for p in w['parts']]
    if esc != w['boundary'] and any(esc.encode() in b.replace(b'-', b'') for b in bodies): return ':data-contains-boundary-without-hyphens'
    if esc != w['boundary'] and any(esc.encode() in (p[0] + p[1]).encode('latin1').replace(b'-', b'') for p in w['parts']): return ':header-contains-boundary-without-hyphens'
    if any(len(b) == 0 for b in bodies): return ':empty-body'
    return ':other'


def main():
    chk = H.Check('C16', 'multipart/form-data round trip')
    prog = chk.load(deps=())
    P = plan(chk.tier); chk.bounds = dict(P, header_names='ASCII letters', header_values='printable, no blank, no colon', bodies='arbitrary bytes of the stated lengths, not containing the boundary')
    chk.assumptions = ['one header per part; names and values are already trimmed; the boundary does not occur in names, values or bodies (the statement\'s premise)']
    import itertools
    cases = []
    for bd in P['boundaries']:
        for bl in P['body_lens']:
            for nl in P['name_lens']:
                for vl in P['value_lens']:
                    cases.append(dict(boundary=bd, mode='roundtrip', parts=[(nl, vl, bl)]))
        for bl1, bl2 in itertools.product(P['two_part_body_lens'], repeat=2):
            cases.append(dict(boundary=bd, mode='roundtrip', parts=[(1, 1, bl1), (1, 1, bl2)]))
        for mode in ('no-open', 'no-close'):
            for bl in (0, 2):
                cases.append(dict(boundary=bd, mode=mode, parts=[(1, 1, bl)]))
    # boundary lengths up to RFC 2046's limit of 70 characters (and beyond): concrete long boundaries, one and two parts
    for n in ((35, 69, 70, 71) if chk.tier == 'quick' else (16, 35, 64, 65, 66, 67, 68, 69, 70, 71, 100)):
        bd = ('Q' * n)
        cases.append(dict(boundary=bd, mode='roundtrip', parts=[(1, 1, 1)]))
        cases.append(dict(boundary=bd, mode='roundtrip', parts=[(1, 1, 1), (1, 1, 1)]))
        cases.append(dict(boundary='--' + bd[2:], mode='roundtrip', parts=[(1, 1, 1), (1, 1, 0)]))
    results = chk.run_cases(case, cases, label='generate -> parse', case_timeout=600 if chk.tier == 'quick' else 1800)
    chk.extra['results_compared'] = sum(r.get('compared', 0) for r in results)

    def replay(v):
        w = v['witness']
        args = [w['boundary'].encode(), w['mode'].encode(), len(w['parts'])]
        for n, val, b in w['parts']: args += [n.encode('latin1'), val.encode('latin1'), bytes.fromhex(b)]
        st, out = chk.oracle.run([('multipart_roundtrip', args)])[0]
        if st == 'panic': return {'reproduced': 'panics' in v['key'], 'native': st}
        if w['mode'] != 'roundtrip': return {'reproduced': st == 'ok', 'native': st}
        if st != 'ok': return {'reproduced': 'rejected' in v['key'] or True, 'native': st, 'msg': out[0].decode('latin1')[:200] if out else ''}
        got = [(out[i].decode('latin1'), out[i + 1].decode('latin1'), out[i + 2].hex()) for i in range(0, len(out), 3)]
        return {'reproduced': got != [tuple(p) for p in w['parts']], 'native_parts': got}
    chk.finish(replay_fn=replay, vacuity=lambda: None if chk.extra['results_compared'] else 'no generated body was ever parsed back successfully')


if __name__ == '__main__':
    main()
