#!/usr/bin/env python3
"""C09 -- HEAD and OPTIONS behave consistently with GET.  Engine S, relational.
One symbolic target and one symbolic filesystem are shared by three symbolic executions of App::execute (and of
App::handle_request) with method GET / HEAD / OPTIONS.  For every pair of paths that can happen together (z3: the
conjunction of their path conditions is satisfiable) the responses are compared."""
from appsweep import *
from pipeline import split_response, header_name_value, pieces_len, pieces_str

SKIP_HEADERS = (b'date-unix-epoch-nanos',)


def plan(t):
    q = t == 'quick'
    return dict(tlens=(2, 3), entries=['execute', 'legacy'], with_origin=(True,) if q else (True, False), range_=('none', 'multi') if q else ('none', 'open', 'multi'))


def explore(prog, params, method, sy_shared):
    ex = new_ex(prog)
    B = dict(target_cap=params['tlen'], content_cap=2)
    hs = []
    if params['origin']: hs.append(('Origin', 'http://o'))
    if method == 'OPTIONS' and params.get('preflight', 'none') != 'none':
        hs.append(('Access-Control-Request-Method', 'PUT'))
        if params['preflight'] == 'method+headers': hs.append(('Access-Control-Request-Headers', 'x-a'))
    p2 = dict(params, method=method, headers=hs)
    st, req, sy = build_state(p2, B)
    st.world['fs'] = ENV.new_fs(content_cap=2, shared_names=True)
    outs = run_entry(ex, st, req, params['entry'])
    sy['_req'] = req
    return ex, outs, sy


def resp_summary(o, entry):
    if o.outcome[0] != 'return': return None
    r = response_of(o.outcome, entry)
    if r is None: return None
    ver, status, reason, headers, crl = resp_fields(r)
    hs = []
    for n, v in headers:
        c = n.concrete()
        hs.append((c.lower() if c is not None else None, v))
    bodies = [cr.fields[3] for cr in crl.items]
    ctypes = [cr.fields[4] for cr in crl.items]
    return dict(status=status, reason=reason, headers=hs, bodies=bodies, ctypes=ctypes, ranges=[(cr.fields[1].fields[0], cr.fields[1].fields[1], cr.fields[2]) for cr in crl.items])


def case(prog, params):
    res = {'violations': [], 'inconclusive': [], 'samples': [], 'kinds': {}, 'pairs': 0, 'served': 0}
    runs = {}
    stats = None
    for m in ('GET', 'HEAD', 'OPTIONS'):
        ex, outs, sy = explore(prog, params, m, None)
        runs[m] = (ex, outs, sy)
        for o in outs:
            k = m + ':' + outcome_kind(o.outcome); res['kinds'][k] = res['kinds'].get(k, 0) + 1
            if o.outcome[0] == 'stop' and not o.outcome[1].startswith('domain:'): res['inconclusive'].append({'status': o.outcome[1], 'error': str(o.outcome[2])[:200]})
    exg, outs_g, syg = runs['GET']
    target = syg['target']
    ex = exg
    agg = dict(H.ex_summary(runs['GET'][0]))
    for m in ('HEAD', 'OPTIONS'):
        s2 = H.ex_summary(runs[m][0])
        for k in agg['stats']: agg['stats'][k] += s2['stats'][k]
        agg['used_fns'] = sorted(set(agg['used_fns']) | set(s2['used_fns'])); agg['used_models'] = sorted(set(agg['used_models']) | set(s2['used_models']))
    served = []
    for g in outs_g:
        sg = resp_summary(g, params['entry'])
        if sg is None: continue
        ok = b_or(int_binop('Eq', sg['status'], Int('i16', 200)), int_binop('Eq', sg['status'], Int('i16', 206)))
        if ok is False: continue
        served.append((g, sg, ok))
    res['served'] = len(served)

    def witness(m):
        t = model_bytes(m, target)
        return {'params': params, 'target': t.decode('latin1')}

    for g, sg, ok in served:
        for other in ('HEAD', 'OPTIONS'):
            for h in runs[other][1]:
                joint = list(g.pc) + [c for c in h.pc if not any(c is d for d in g.pc)] + [zb(ok)]
                r, m = ex.check(joint)
                res['pairs'] += 1
                if r != 'sat': continue
                fsd = {}
                for e in list(g.world['fs']['entries']) + list(h.world['fs']['entries']):
                    fsd[model_bytes(m, e.path).decode('latin1')] = (m.eval(e.kind, model_completion=True).as_long(), model_bytes(m, e.content).hex())
                if h.outcome[0] == 'panic':
                    continue   # panics are C04's subject
                sh = resp_summary(h, params['entry'])
                if sh is None: continue
                w0 = witness(m); w0['fs'] = [(k, v[0], v[1]) for k, v in fsd.items()]; w0['other'] = other
                checks = []
                if other == 'HEAD':
                    checks.append(('HEAD-status-differs-from-GET', b_not(int_binop('Eq', sh['status'], sg['status']))))
                    hg = [(n, v) for n, v in sg['headers'] if n not in SKIP_HEADERS]; hh = [(n, v) for n, v in sh['headers'] if n not in SKIP_HEADERS]
                    if [n for n, _ in hg] != [n for n, _ in hh]: checks.append(('HEAD-header-names-differ-from-GET', True))
                    else:
                        for (n, a), (_, b) in zip(hg, hh): checks.append(('HEAD-header-%s-differs-from-GET' % (n or b'?').decode(), b_not(a.eq(b))))
                    if len(sg['bodies']) != len(sh['bodies']): checks.append(('HEAD-content-length-differs-from-GET-body', True))
                    else:
                        for a, b in zip(sg['bodies'], sh['bodies']): checks.append(('HEAD-content-length-differs-from-GET-body', b_not(bv_eq(a.length(), b.length(), LW))))
                        for a, b in zip(sg['ctypes'], sh['ctypes']): checks.append(('HEAD-content-type-differs-from-GET', b_not(a.eq(b))))
                    # what is put on the wire: Response::generate_response(resp, request) for both, compared line by line
                    checks += wire_checks(ex, joint, response_of(g.outcome, params['entry']), syg['_req'], response_of(h.outcome, params['entry']), runs['HEAD'][2]['_req'], res)
                else:
                    st_ = sh['status']
                    checks.append(('OPTIONS-not-a-success-status', b_or(int_binop('Lt', st_, Int('i16', 200)), int_binop('Ge', st_, Int('i16', 300)))))
                    if params['origin']:
                        acao = [v for n, v in sh['headers'] if n == b'access-control-allow-origin']
                        if len(acao) != 1: checks.append(('OPTIONS-without-cross-origin-grant', True))
                        else: checks.append(('OPTIONS-grant-differs-from-origin', b_not(acao[0].eq(S('http://o')))))
                        pf = params.get('preflight', 'none')
                        if pf != 'none':
                            # a browser preflight succeeds only if the requested method (and headers) are granted
                            acam = [v for n, v in sh['headers'] if n == b'access-control-allow-methods']
                            if len(acam) != 1: checks.append(('OPTIONS-preflight-without-allow-methods', True))
                            else: checks.append(('OPTIONS-preflight-does-not-grant-the-requested-method', b_not(acam[0].eq(S('PUT')))))
                            if pf == 'method+headers':
                                acah = [v for n, v in sh['headers'] if n == b'access-control-allow-headers']
                                if len(acah) != 1: checks.append(('OPTIONS-preflight-without-allow-headers', True))
                                else: checks.append(('OPTIONS-preflight-does-not-grant-the-requested-headers', b_not(acah[0].eq(S('x-a')))))
                for label, bad in checks:
                    bad = simp_bool(bad) if not isinstance(bad, bool) else bad
                    if bad is False: continue
                    r2, m2 = ex.check(joint, bad)
                    if r2 == 'unknown': res['inconclusive'].append({'status': 'solver-unknown', 'error': label}); continue
                    if r2 == 'sat':
                        w = witness(m2); w['other'] = other; w['label'] = label
                        fs2 = {}
                        for e in list(g.world['fs']['entries']) + list(h.world['fs']['entries']):
                            fs2[model_bytes(m2, e.path).decode('latin1')] = (m2.eval(e.kind, model_completion=True).as_long(), model_bytes(m2, e.content).hex())
                        w['fs'] = [(k, v[0], v[1]) for k, v in fs2.items()]
                        res['violations'].append({'key': 'C09:%s:%s' % (label, params['entry']), 'text': '%s for target %r (%s)' % (label, w['target'], params['entry']), 'witness': w})
    res.update(agg)
    if params.get('sample') or True: res['samples'].append({'case': params, 'GET_paths_serving_a_file': res['served'], 'joint_pairs_checked': res['pairs'], 'kinds': res['kinds']})
    return res


def wire_checks(ex, joint, rg, req_g, rh, req_h, res):
    out = []
    wires = []
    for r_, q_ in ((rg, req_g), (rh, req_h)):
        st = State(); st.pc = list(joint)
        outs = ex.run_fn('Response::generate_response', [r_, q_], st)
        rets = [o for o in outs if o.outcome[0] == 'return']
        for o in outs:
            if o.outcome[0] == 'stop' and not o.outcome[1].startswith('domain:'): res['inconclusive'].append({'status': o.outcome[1], 'error': str(o.outcome[2])[:200]})
        wires.append(rets)
    res['wire_pairs'] = res.get('wire_pairs', 0) + len(wires[0]) * len(wires[1])
    for og in wires[0]:
        for oh in wires[1]:
            extra = [c for c in og.pc if not any(c is d for d in joint)] + [c for c in oh.pc if not any(c is d for d in joint)]
            sl_g, hl_g, body_g, pr_g = split_response(og.outcome[1]); sl_h, hl_h, body_h, pr_h = split_response(oh.outcome[1])
            pre = b_and(*[zb(x) for x in extra]) if extra else True
            def add(label, bad): out.append((label, b_and(pre, bad) if bad is not True else pre))
            if pr_g or pr_h: add('wire-HEAD-or-GET-head-not-terminated', True); continue
            add('wire-HEAD-status-line-differs-from-GET', b_not(pieces_str(sl_g).eq(pieces_str(sl_h))))
            ng = [header_name_value(l)[0] for l in hl_g]; nh = [header_name_value(l)[0] for l in hl_h]
            if ng != nh: add('wire-HEAD-header-names-differ-from-GET', True)
            else:
                for n_, lg, lh in zip(ng, hl_g, hl_h):
                    if n_ is not None and n_.lower() in SKIP_HEADERS: continue
                    add('wire-HEAD-header-%s-differs-from-GET' % (n_ or b'?').decode('latin1').lower(), b_not(pieces_str(lg).eq(pieces_str(lh))))
                cl = [header_name_value(l)[1] for l, n_ in zip(hl_h, nh) if n_ is not None and n_.lower() == b'content-length']
                if cl:
                    # decimal text of the GET body length
                    glen = pieces_len(body_g)
                    gl = bounds(glen)[1] if not isinstance(glen, int) else glen
                    if isinstance(glen, int): add('wire-HEAD-content-length-is-not-GET-body-length', b_not(pieces_str(cl[0]).eq(S(str(glen)))))
                    elif gl is not None and gl < 100:
                        add('wire-HEAD-content-length-is-not-GET-body-length', b_not(b_or(*[b_and(bv_eq(glen, k, LW), pieces_str(cl[0]).eq(S(str(k)))) for k in range(gl + 1)])))
            hb = pieces_len(body_h)
            add('wire-HEAD-response-carries-a-body', b_not(bv_eq(hb, 0, LW)) if not isinstance(hb, int) else hb != 0)
    return out


def native_triplet(chk, w):
    import tempfile, shutil, posixpath
    p = w['params']
    base = tempfile.mkdtemp(prefix='c09_')
    try:
        root = os.path.join(base, 'root'); os.makedirs(root)
        for path, kind, content in w.get('fs', []):
            rel = path[len('/r'):] if path.startswith('/r') else '/' + path
            real = posixpath.normpath(root + rel)
            if not real.startswith(root): continue
            try:
                if kind == 2: os.makedirs(real, exist_ok=True)
                elif kind == 1:
                    os.makedirs(os.path.dirname(real), exist_ok=True)
                    if not os.path.isdir(real): open(real, 'wb').write(bytes.fromhex(content))
            except OSError: pass
        out = {}
        for m in ('GET', w['other']):
            reqb = ('%s %s HTTP/1.1\r\n' % (m, w['target'])).encode('latin1') + (b'Origin: http://o\r\n' if p['origin'] else b'') + ((b'Access-Control-Request-Method: PUT\r\n' + (b'Access-Control-Request-Headers: x-a\r\n' if p.get('preflight') == 'method+headers' else b'')) if (m == 'OPTIONS' and p.get('preflight', 'none') != 'none') else b'') + (b'Range: bytes=0-\r\n' if p.get('range') == 'open' else b'Range: bytes=0-0,1-1\r\n' if p.get('range') == 'multi' else b'') + b'\r\n'
            cmd = 'process' if p['entry'] == 'execute' else 'process_request'
            st, o = chk.oracle.run([(cmd, [reqb, len(reqb)])], cwd=root, env={'RWS_CONFIG_CORS_ALLOW_ALL': 'true'})[0]
            raw = o[0] if st == 'ok' and o else b''
            head, _, body = raw.partition(b'\r\n\r\n')
            lines = head.decode('latin1').split('\r\n')
            out[m] = {'native': st, 'status': lines[0], 'headers': [l for l in lines[1:] if not l.lower().startswith(('date-unix-epoch-nanos', 'last-modified'))], 'body_len': len(body)}
        return out
    finally:
        shutil.rmtree(base, ignore_errors=True)


def main():
    chk = H.Check('C09', 'HEAD and OPTIONS consistent with GET')
    prog = chk.load()
    P = plan(chk.tier); chk.bounds = dict(P, target_alphabet='0x21-0x7e, leading "/"')
    lem = lemmas.lemma_filter_string(prog, 5); chk.extra['lemmas'] = [lem]
    if not lem['ok']: chk.inconclusive.append({'status': 'lemma-failed', 'error': str(lem)})
    chk.assumptions = ['the three executions share the request symbols and the filesystem variables (named after the probed path expression); detect_mime_type is one uninterpreted function',
                       'timestamp header excluded from the comparison; CORS switch = allow-all']
    cases = []
    for entry in P['entries']:
        for n in P['tlens']:
            for org in P['with_origin']:
                for rg in P['range_']:
                    for sec in ('dot', 'slash', 'qh', 'alnum', 'other'):
                        if rg == 'multi' and chk.tier == 'quick' and (sec not in ('alnum', 'slash') or n != P['tlens'][0]): continue
                        cases.append(dict(entry=entry, tlen=n, first='slash', second=sec, origin=org, range=rg))
    # browser preflights: OPTIONS with Access-Control-Request-Method (and -Headers)
    for entry in P['entries']:
        for pf in ('method', 'method+headers'):
            for sec in (('alnum',) if chk.tier == 'quick' else ('alnum', 'slash', 'dot')):
                cases.append(dict(entry=entry, tlen=P['tlens'][0], first='slash', second=sec, origin=True, range='none', preflight=pf))
    results = chk.run_cases(case, cases, label='GET/HEAD/OPTIONS relational sweep')
    chk.extra['GET_paths_serving_a_file'] = sum(r.get('served', 0) for r in results); chk.extra['joint_pairs_checked'] = sum(r.get('pairs', 0) for r in results)

    def replay(v):
        w = v['witness']
        t = native_triplet(chk, w)
        g = t['GET']; o = t[w['other']]
        if not g['status'].startswith(('HTTP/1.1 200', 'HTTP/1.1 206')): return {'reproduced': False, 'native': t}
        if w['other'] == 'HEAD':
            def cl(hs): return [h for h in hs if h.lower().startswith('content-length')]
            diff = (o['status'] != g['status']) or (sorted(o['headers']) != sorted(g['headers'])) or o['body_len'] != 0
        else:
            code = o['status'].split(' ')[1] if ' ' in o['status'] else '0'
            diff = not code.startswith('2') or o['body_len'] != 0 or (w['params']['origin'] and not any(h.lower().startswith('access-control-allow-origin: http://o') for h in o['headers']))
            pf_ = w['params'].get('preflight', 'none')
            if pf_ != 'none': diff = diff or not any(h.lower().startswith('access-control-allow-methods: put') for h in o['headers']) or (pf_ == 'method+headers' and not any(h.lower().startswith('access-control-allow-headers: x-a') for h in o['headers']))
        return {'reproduced': bool(diff), 'native': t}
    chk.finish(replay_fn=replay, vacuity=lambda: None if chk.extra['GET_paths_serving_a_file'] else 'GET never served a file on any explored path')


if __name__ == '__main__':
    main()
