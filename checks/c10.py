#!/usr/bin/env python3
"""C10 -- every response carries the hardening and no-cache headers, each exactly once.  Engine S.
Kernel: Server::process -> Request::parse -> App::execute -> all controllers -> Header::get_header_list ->
Response::generate_response / Server::bad_request_response, over the transport and filesystem models.
Oracle: structural reader of the written bytes (pipeline.split_response), independent of the code under test."""
from pipeline import *
import re as _re

NO_CACHE = b'no-store, no-cache, private, max-age=0, must-revalidate, proxy-revalidate'


def shapes(t):
    q = t == 'quick'
    out = []
    for n in range(1, 3 + 1):
        out.append(dict(kind='target', method='GET', tlen=n))
    for m in (('HEAD', 'OPTIONS', 'POST') if q else ('HEAD', 'OPTIONS', 'POST', 'PUT', 'DELETE')):
        for n in (1, 2): out.append(dict(kind='target', method=m, tlen=n))
    for n in range(0, (3 if q else 4) + 1): out.append(dict(kind='range', rlen=n))
    out.append(dict(kind='raw', cap=4 if q else 5))
    out.append(dict(kind='readfail'))
    out.append(dict(kind='apperr'))
    for (m, target, ctype) in (('GET', '/', None), ('GET', '/style.css', None), ('GET', '/script.js', None), ('GET', '/favicon.svg', None), ('GET', '/form-get-method?a=b', None),
                               ('POST', '/form-url-encoded-enctype-post-method', 'application/x-www-form-urlencoded'), ('POST', '/form-multipart-enctype-post-method', 'multipart/form-data; boundary=b'),
                               ('POST', '/file-upload/initiate', None)):
        out.append(dict(kind='fixed', method=m, target=target, ctype=ctype, bcap=2))
    for dp in MULTIPART_DISPOSITION_PREFIXES:
        for ln_ in ((2, 2), (0, 1)): out.append(dict(kind='multipart', disp_prefix=dp, lens=ln_))
    out.append(dict(kind='multipart', disp_prefix='form-data; name=', lens=(0, 1), eol='\n'))
    # storage faults: any read of an existing file may fail (the error responses built on those paths carry the headers too)
    for t_ in ('/a', '/', '/style.css', '/a/'): out.append(dict(kind='iofault', target=t_))
    return out


def build_request(p, cons):
    k = p['kind']
    if k == 'target':
        t = SymStr.fresh('t', p['tlen'], cons, exact_len=p['tlen'], alphabet=target_alphabet)
        cons.append(t.flat().bs[0] == 0x2f)
        return SymStr.join([S(p['method'] + ' '), t, S(' HTTP/1.1\r\nOrigin: http://o\r\n\r\n')]), {'t': t}
    if k == 'range':
        r = SymStr.fresh('r', p['rlen'], cons, exact_len=p['rlen'], alphabet=printable) if p['rlen'] else S('')
        return SymStr.join([S('GET /a HTTP/1.1\r\nRange: bytes='), r, S('\r\n\r\n')]), {'r': r}
    if k == 'raw':
        r = SymStr.fresh('raw', p['cap'], cons)
        return r.concat(S('\r\n\r\n')), {'raw': r}
    if k in ('readfail', 'apperr'):
        return S('GET /a HTTP/1.1\r\n\r\n'), {}
    if k == 'fixed':
        b = SymStr.fresh('b', p['bcap'], cons)
        head = '%s %s HTTP/1.1\r\n' % (p['method'], p['target'])
        if p.get('ctype'): head += 'Content-Type: %s\r\n' % p['ctype']
        return S(head + '\r\n').concat(b), {'b': b}
    if k == 'multipart':
        return multipart_request(cons, p['disp_prefix'], lens=tuple(p.get('lens', (2, 2))), eol=p.get('eol', '\r\n'))
    if k == 'iofault':
        return S('GET %s HTTP/1.1\r\nOrigin: http://o\r\n\r\n' % p['target']), {}
    raise ValueError(k)


def check_headers(data):
    """-> list of (label, violated: bool) on one written response (all required names/values are concrete text)"""
    status, headers, body, problems = split_response(data)
    out = [('malformed-response:' + p, True) for p in problems]
    found = {}
    for hl in headers:
        name, val = header_name_value(hl)
        if name is None: continue
        found.setdefault(name.lower(), []).append(val)
    def conc(v): return b''.join(p.conc for p in v) if all(p.conc is not None for p in v) else None
    for name, want in REQUIRED + [('Cache-Control', NO_CACHE)]:
        vs = found.get(name.lower().encode(), [])
        if len(vs) != 1: out.append(('%s-occurs-%d-times' % (name, len(vs)), True)); continue
        if conc(vs[0]) != want: out.append(('%s-has-value-%r' % (name, conc(vs[0])), True))
    vs = found.get(b'accept-ch', [])
    if len(vs) != 1 or not conc(vs[0]): out.append(('Accept-CH-occurs-%d-times' % len(vs), True))
    vs = found.get(b'vary', [])
    if len(vs) != 1: out.append(('Vary-occurs-%d-times' % len(vs), True))
    else:
        v = conc(vs[0])
        if v is None or b'origin' not in [x.strip().lower() for x in v.split(b',')]: out.append(('Vary-does-not-name-Origin', True))
    st = line_text(status)
    return out, st


def case(prog, params):
    ex = new_ex(prog)
    if params['kind'] == 'multipart': ex.fork_read_until = 6
    cons = []
    reqb, sy = build_request(params, cons)
    res = {'violations': [], 'inconclusive': [], 'samples': [], 'kinds': {}, 'statuses': {}, 'responses': 0}
    stream = {}
    if params['kind'] == 'readfail': stream['read_fail'] = True

    def term(o):
        k = outcome_kind(o.outcome); res['kinds'][k] = res['kinds'].get(k, 0) + 1
        if o.outcome[0] == 'stop' and not o.outcome[1].startswith('domain:'):
            res['inconclusive'].append({'status': o.outcome[1], 'error': str(o.outcome[2])[:200]}); return
        for data, _ in written_responses(o):
            res['responses'] += 1
            bad, st_line = check_headers(data)
            code = st_line[9:12].decode('latin1', 'replace') if len(st_line) >= 12 else '?'
            res['statuses'][code] = res['statuses'].get(code, 0) + 1
            for label, v in bad:
                if not v: continue
                r, m = ex.check(o.pc)
                if r != 'sat': continue
                wreq = model_bytes(m, reqb)
                fsd = []
                for e in o.world['fs']['entries']:
                    fsd.append((model_bytes(m, e.path).decode('latin1'), m.eval(e.kind, model_completion=True).as_long(), model_bytes(m, e.content).hex()))
                iof = [model_bytes(m, p_).decode('latin1') for bv_, p_ in o.world.get('fs_iofail', ()) if z3.is_true(m.eval(bv_, model_completion=True))]
                res['violations'].append({'key': 'C10:%s:status-%s' % (label, code), 'text': 'response %s: %s for request %r%s' % (code, label, wreq, (' with read errors on %r' % iof) if iof else ''),
                                          'witness': {'request': wreq.hex(), 'fs': fsd, 'kind': params['kind'], 'label': label, 'iofail': iof}})
    run_process(ex, reqb, cons, term, stream=stream, app_mode='abstract-fail' if params['kind'] == 'apperr' else 'real',
                fs=ENV.new_fs(content_cap=2, read_may_fail=True) if params['kind'] == 'iofault' else None)
    res.update(H.ex_summary(ex))
    res['samples'].append({'case': params, 'statuses': res['statuses'], 'kinds': res['kinds']})
    return res


def native_response(chk, w, extra=()):
    import tempfile, shutil, posixpath
    base = tempfile.mkdtemp(prefix='c10_')
    try:
        root = os.path.join(base, 'root'); os.makedirs(root)
        links = []
        for ent_ in w.get('fs', []):
            path, kind, content = ent_[0], ent_[1], ent_[2]
            rel = path[len('/r'):] if path.startswith('/r') else '/' + path
            real = posixpath.normpath(root + rel)
            if not real.startswith(root): continue
            if len(ent_) > 3 and kind != 0:
                links.append((real, ent_[3])); continue          # a symbolic link: created after the regular entries
            try:
                if kind == 2: os.makedirs(real, exist_ok=True)
                elif kind == 1:
                    os.makedirs(os.path.dirname(real), exist_ok=True)
                    if not os.path.isdir(real): open(real, 'wb').write(bytes.fromhex(content))
            except OSError: pass
        for path in w.get('iofail', []):
            # a regular file whose read fails: /proc/self/mem reads with EIO
            rel = path[len('/r'):] if path.startswith('/r') else '/' + path
            real = posixpath.normpath(root + rel)
            if not real.startswith(root): continue
            try:
                if os.path.lexists(real) and not os.path.isdir(real): os.remove(real)
                os.makedirs(os.path.dirname(real), exist_ok=True)
                if not os.path.lexists(real): os.symlink('/proc/self/mem', real)
            except OSError: pass
        for real, tgt in links:
            try:
                os.makedirs(os.path.dirname(real), exist_ok=True)
                if not os.path.lexists(real): os.symlink(tgt, real)
            except OSError: pass
        reqb = bytes.fromhex(w['request'])
        args = [reqb, len(reqb)] + list(extra)
        if w.get('kind') == 'readfail': args.append(H.Raw('r'))
        if w.get('kind') == 'apperr': args.append(H.Raw('A'))
        st, out = chk.oracle.run([('process', args)], cwd=root, env={'RWS_CONFIG_CORS_ALLOW_ALL': 'true'})[0]
        return st, (out[0] if out else b'')
    finally:
        shutil.rmtree(base, ignore_errors=True)


def main():
    chk = H.Check('C10', 'hardening and no-cache headers on every response')
    prog = chk.load()
    lem = lemmas.lemma_filter_string(prog, 5); chk.extra['lemmas'] = [lem]
    if not lem['ok']: chk.inconclusive.append({'status': 'lemma-failed', 'error': str(lem)})
    cases = shapes(chk.tier)
    chk.bounds = {'request shapes': cases}
    chk.assumptions = ['transport delivers the whole request and accepts all writes (faults are C04/C05); symbolic filesystem as in C01; detect_mime_type uninterpreted',
                       'CORS switch = allow-all; Origin header present in the target sweep']
    results = chk.run_cases(case, cases, label='Server::process sweep')
    statuses = {}
    for r in results:
        for k, v in r.get('statuses', {}).items(): statuses[k] = statuses.get(k, 0) + v
    chk.extra['response_statuses_seen'] = statuses

    def replay(v):
        w = v['witness']
        st, raw = native_response(chk, w)
        if st != 'ok': return {'reproduced': False, 'native': st}
        head = raw.split(b'\r\n\r\n')[0].decode('latin1').split('\r\n')[1:]
        names = [h.split(': ')[0].lower() for h in head]
        label = w['label']
        m = _re.match(r'^(.*)-occurs-(\d+)-times$', label)
        if m:
            return {'reproduced': names.count(m.group(1).lower()) == int(m.group(2)), 'native_header_names': names}
        return {'reproduced': True, 'native_header_names': names}

    def vacuity():
        need = {'200', '404', '400'}
        missing = need - set(statuses)
        return ('statuses never produced: %s' % sorted(missing)) if missing else None
    chk.finish(replay_fn=replay, vacuity=vacuity)


if __name__ == '__main__':
    main()
