"""helpers shared by the per-property checks"""
import os, sys, json
VERIF = os.path.dirname(os.path.dirname(os.path.abspath(__file__)))
if VERIF not in sys.path: sys.path.insert(0, VERIF)
import z3
from mirse.sym import *
from mirse.engine import *
from mirse import harness as H

METHODS = ['GET', 'HEAD', 'POST', 'PUT', 'DELETE', 'CONNECT', 'OPTIONS', 'TRACE', 'PATCH']


def S(x): return SymStr.const(x)


def header(name, value):
    return Struct('Header', (name if isinstance(name, SymStr) else S(name), value if isinstance(value, SymStr) else S(value)))


def request(method, uri, headers, body=b'', version='HTTP/1.1'):
    def s(x): return x if isinstance(x, SymStr) else S(x)
    return Struct('Request', (s(method), s(uri), s(version), Vec(list(headers)), s(body)))


def printable(b):
    return z3.And(z3.UGE(b, 0x20), z3.ULE(b, 0x7e))


def printable_except(*chars):
    def f(b): return z3.And(z3.UGE(b, 0x20), z3.ULE(b, 0x7e), *[b != c for c in chars])
    return f


def headers_of(v, m=None):
    """Vec<Header> value -> list of (name SymStr, value SymStr)"""
    return [(h.fields[0], h.fields[1]) for h in v.items]


def find_headers(hs, name):
    """headers whose (concrete) name equals `name` case-insensitively -> list of values ; names must be concrete"""
    out = []
    for n, v in hs:
        c = n.concrete()
        if c is None: raise Unsupported('symbolic response header name')
        if c.lower() == name.lower().encode(): out.append(v)
    return out


def outcome_kind(o):
    if o[0] == 'return': return 'return'
    if o[0] == 'panic': return 'panic'
    return 'stop:' + o[1]


def count_kinds(outs):
    k = {}
    for o in outs:
        kk = outcome_kind(o.outcome); k[kk] = k.get(kk, 0) + 1
    return k


def hexs(b): return b.hex() if isinstance(b, (bytes, bytearray)) else b
