#!/usr/bin/env python3
"""C11 -- cross-origin grants follow the configuration exactly.  Engine S (MIR symbolic execution + z3).
Kernel: Cors::get_headers -> Cors::allow_all / Cors::process_using_default_config (+ Request::get_header and its closure)."""
from common import *

ENV_ALL = b'RWS_CONFIG_CORS_ALLOW_ALL'; ENV_ORIG = b'RWS_CONFIG_CORS_ALLOW_ORIGINS'; ENV_CRED = b'RWS_CONFIG_CORS_ALLOW_CREDENTIALS'
ENV_METH = b'RWS_CONFIG_CORS_ALLOW_METHODS'; ENV_HDRS = b'RWS_CONFIG_CORS_ALLOW_HEADERS'; ENV_EXP = b'RWS_CONFIG_CORS_EXPOSE_HEADERS'
ENV_AGE = b'RWS_CONFIG_CORS_MAX_AGE'
GRANTS = ['Access-Control-Allow-Origin', 'Access-Control-Allow-Credentials', 'Access-Control-Allow-Methods',
          'Access-Control-Allow-Headers', 'Access-Control-Max-Age', 'Access-Control-Expose-Headers']


def bounds(t):
    if t == 'quick': return dict(origin_cap=5, norigins=(0, 1, 2), cfg_origin_cap=4, val_cap=3)
    return dict(origin_cap=9, norigins=(0, 1, 2, 3), cfg_origin_cap=6, val_cap=5)


def build(params, B, concrete=None):
    """returns (state, request value, symbols dict).  concrete: dict of concrete bytes for differential runs"""
    cons = []
    sy = {}
    def sym(name, cap, **kw):
        if concrete is not None: return S(concrete[name])
        return SymStr.fresh(name, cap, cons, **kw)
    sw = params['switch']
    env = {}
    if sw == 'unset': env[ENV_ALL] = None
    elif sw == 'junk':
        env[ENV_ALL] = sym('junk', 2, alphabet=printable)
        sy['junk'] = env[ENV_ALL]
        if concrete is None:
            cons.append(z3.Not(zb(env[ENV_ALL].eq(S('true')))))
    else: env[ENV_ALL] = S(sw)
    origins = [sym('cfg%d' % i, B['cfg_origin_cap'], minlen=1, alphabet=printable_except(0x2c)) for i in range(params['k'])]
    sy['origins'] = origins
    env[ENV_ORIG] = SymStr.join(origins, S(','))
    cred = params['cred']
    env[ENV_CRED] = None if cred == 'unset' else (sym('credjunk', 2, alphabet=printable) if cred == 'junk' else S(cred))
    for nm, key in (('meth', ENV_METH), ('hdrs', ENV_HDRS), ('exp', ENV_EXP), ('age', ENV_AGE)):
        env[key] = sym(nm, B['val_cap'], alphabet=printable); sy[nm] = env[key]
    hs = []
    if params.get('decoy'):
        # a header that is NOT Origin (name: 0-6 letters, any case, != "origin"), placed before the real one: it must not influence the grants
        letter = lambda b: z3.Or(z3.And(z3.UGE(b, 65), z3.ULE(b, 90)), z3.And(z3.UGE(b, 97), z3.ULE(b, 122)))
        sy['dname'] = sym('dname', 6, alphabet=letter); sy['dval'] = sym('dval', B['origin_cap'], alphabet=printable)
        if concrete is None: cons.append(z3.Not(zb(lower_str(sy['dname']).eq(S('origin')))))
        hs.append(header(sy['dname'], sy['dval']))
    if params['origin']:
        sy['origin'] = sym('origin', B['origin_cap'], alphabet=printable)
        hs.append(header('Origin' if params.get('origin_name') is None else params['origin_name'], sy['origin']))
    if params['acrm']:
        sy['acrm'] = sym('acrm', B['val_cap'], alphabet=printable); hs.append(header('Access-Control-Request-Method', sy['acrm']))
    if params['acrh']:
        sy['acrh'] = sym('acrh', B['val_cap'], alphabet=printable); hs.append(header('Access-Control-Request-Headers', sy['acrh']))
    req = request(params['method'], '/', hs)
    st = State(); st.pc = list(cons); st.world['env'] = env
    sy['env'] = env; sy['cred'] = env[ENV_CRED]
    return st, req, sy


def lower_str(s):
    from mirse.models import lower
    return s.map_bytes(lower)


def expected_violation(params, sy, hs):
    """list of (label, formula that is TRUE exactly when the response headers violate C11) for one returned header list"""
    out = []
    g = {n: find_headers(hs, n) for n in GRANTS}
    any_grant = any(g[n] for n in GRANTS)
    on = params['switch'] != 'false'
    has_origin = params['origin']
    if not has_origin:
        if any_grant: out.append(('grant-without-origin-header', True))
        return out
    o = sy['origin']
    if on:
        acao = g['Access-Control-Allow-Origin']; acac = g['Access-Control-Allow-Credentials']
        if len(acao) != 1: out.append(('allow-all:origin-not-echoed-once', True))
        else: out.append(('allow-all:origin-not-echoed', b_not(acao[0].eq(o))))
        if len(acac) != 1: out.append(('allow-all:credentials-missing', True))
        else: out.append(('allow-all:credentials-not-true', b_not(acac[0].eq(S('true')))))
        return out
    member = b_or(*[o.eq(c) for c in sy['origins']])
    if any_grant:
        out.append(('grant-to-origin-not-in-configured-list', b_not(member)))
    # converse and exactness of the grants, for members
    acao = g['Access-Control-Allow-Origin']
    if not acao: out.append(('configured-origin-gets-no-grant', member))
    else:
        if len(acao) > 1: out.append(('duplicate-allow-origin', True))
        out.append(('allow-origin-differs-from-request-origin', b_and(member, b_not(acao[0].eq(o)))))
        cred = sy['cred']
        cred_true = False if cred is None else cred.eq(S('true'))
        acac = g['Access-Control-Allow-Credentials']
        if acac: out.append(('credentials-granted-but-not-configured', b_and(member, b_or(b_not(cred_true), b_not(acac[0].eq(S('true')))))))
        else: out.append(('credentials-configured-but-not-granted', b_and(member, cred_true)))
        if params['method'] == 'OPTIONS':
            for name, key, ci in (('Access-Control-Allow-Methods', 'meth', False), ('Access-Control-Allow-Headers', 'hdrs', True), ('Access-Control-Max-Age', 'age', False)):
                vals = g[name]
                if len(vals) != 1: out.append(('preflight-%s-count-%d' % (name, len(vals)), member))
                else:
                    a, b = vals[0], sy[key]
                    if ci: a, b = lower_str(a), lower_str(b)
                    out.append(('preflight-%s-differs-from-configuration' % name, b_and(member, b_not(a.eq(b)))))
    return out


def witness_of(m, params, sy):
    w = {'params': params}
    for k in ('origin', 'acrm', 'acrh', 'meth', 'hdrs', 'exp', 'age', 'junk', 'dname', 'dval'):
        if k in sy: w[k] = model_bytes(m, sy[k]).decode('latin1')
    w['origins'] = [model_bytes(m, c).decode('latin1') for c in sy['origins']]
    if isinstance(sy['cred'], SymStr): w['cred'] = model_bytes(m, sy['cred']).decode('latin1')
    else: w['cred'] = None
    return w


def case(prog, params):
    B = bounds(H.tier())
    ex = H.new_executor(prog)
    st, req, sy = build(params, B)
    outs = ex.run_fn('Cors::get_headers', [req], st)
    res = H.ex_summary(ex); res['kinds'] = count_kinds(outs); res['violations'] = []; res['inconclusive'] = []; res['samples'] = []
    grants_seen = 0
    for o in outs:
        if o.outcome[0] != 'return':
            if o.outcome[0] == 'panic':
                r, m = ex.check(o.pc)
                res['violations'].append({'key': 'panic:' + o.outcome[1], 'text': 'Cors::get_headers panics: %s at %s' % (o.outcome[1], o.outcome[2]),
                                          'witness': witness_of(m, params, sy) if m else None})
            else:
                res['inconclusive'].append({'status': o.outcome[1], 'error': str(o.outcome[2])})
            continue
        hs = headers_of(o.outcome[1])
        if hs: grants_seen += 1
        for label, bad in expected_violation(params, sy, hs):
            bad = simp_bool(bad)
            if bad is False: continue
            r, m = ex.check(o.pc, bad)
            if r == 'unknown': res['inconclusive'].append({'status': 'solver-unknown', 'error': label}); continue
            if r == 'sat':
                w = witness_of(m, params, sy)
                res['violations'].append({'key': classify(label, params, w), 'text': label, 'witness': w})
    res['grant_paths'] = grants_seen
    res['stats'] = H.ex_summary(ex)['stats']
    if params.get('sample'): res['samples'].append({'case': params, 'paths': len(outs), 'kinds': res['kinds']})
    return res


def classify(label, params, w):
    """role-based key: what fails (label) + the relation between the request Origin and the configured list"""
    o = w.get('origin'); cfg = w.get('origins', [])
    rel = ''
    if label == 'grant-to-origin-not-in-configured-list':
        joined = ','.join(cfg)
        if o == '': rel = ':empty-origin'
        elif ',' in (o or ''): rel = ':origin-spans-list-separator'
        elif any(o in c for c in cfg): rel = ':proper-substring-of-configured-origin'
        elif o in joined: rel = ':substring-of-joined-list'
        else: rel = ':other'
    return 'C11:' + label + rel + (':switch-on' if params['switch'] != 'false' else '')


def run_native(oracle, w):
    p = w['params']
    env = {}
    if p['switch'] == 'junk': env['RWS_CONFIG_CORS_ALLOW_ALL'] = w['junk']
    elif p['switch'] != 'unset': env['RWS_CONFIG_CORS_ALLOW_ALL'] = p['switch']
    env['RWS_CONFIG_CORS_ALLOW_ORIGINS'] = ','.join(w['origins'])
    if w.get('cred') is not None: env['RWS_CONFIG_CORS_ALLOW_CREDENTIALS'] = w['cred']
    for k, e in (('meth', 'RWS_CONFIG_CORS_ALLOW_METHODS'), ('hdrs', 'RWS_CONFIG_CORS_ALLOW_HEADERS'), ('exp', 'RWS_CONFIG_CORS_EXPOSE_HEADERS'), ('age', 'RWS_CONFIG_CORS_MAX_AGE')):
        env[e] = w[k]
    hs = []
    if p.get('decoy'): hs += [w['dname'].encode('latin1'), w['dval'].encode('latin1')]
    if p['origin']: hs += [b'Origin', w['origin'].encode('latin1')]
    if p['acrm']: hs += [b'Access-Control-Request-Method', w['acrm'].encode('latin1')]
    if p['acrh']: hs += [b'Access-Control-Request-Headers', w['acrh'].encode('latin1')]
    args = [p['method'].encode(), b'/', b'HTTP/1.1', b'', len(hs) // 2] + hs
    st, out = oracle.run([('cors_get_headers', args)], env=env)[0]
    if st != 'ok': return st, out
    return st, [(out[i].decode('latin1'), out[i + 1].decode('latin1')) for i in range(0, len(out), 2)]


def concrete_violation(w, hs):
    """the same oracle as expected_violation, on concrete native output; returns list of labels"""
    p = w['params']; out = []
    g = {n: [v for k, v in hs if k.lower() == n.lower()] for n in GRANTS}
    any_grant = any(g[n] for n in GRANTS)
    if not p['origin']:
        return ['grant-without-origin-header'] if any_grant else []
    o = w['origin']
    if p['switch'] != 'false':
        if g['Access-Control-Allow-Origin'] != [o]: out.append('allow-all:origin-not-echoed')
        if g['Access-Control-Allow-Credentials'] != ['true']: out.append('allow-all:credentials-not-true')
        return out
    member = o in w['origins']
    if any_grant and not member: out.append('grant-to-origin-not-in-configured-list')
    if member:
        if g['Access-Control-Allow-Origin'] != [o]: out.append('allow-origin-differs-from-request-origin')
        ct = w.get('cred') == 'true'
        if ct != (g['Access-Control-Allow-Credentials'] == ['true']): out.append('credentials')
        if p['method'] == 'OPTIONS':
            if g['Access-Control-Allow-Methods'] != [w['meth']]: out.append('preflight-Access-Control-Allow-Methods-differs-from-configuration')
            if [x.lower() for x in g['Access-Control-Allow-Headers']] != [w['hdrs'].lower()]: out.append('preflight-Access-Control-Allow-Headers-differs-from-configuration')
            if g['Access-Control-Max-Age'] != [w['age']]: out.append('preflight-Access-Control-Max-Age-differs-from-configuration')
    return out


def main():
    chk = H.Check('C11', 'CORS grants follow the configuration')
    prog = chk.load()
    B = bounds(chk.tier); chk.bounds = dict(B, methods=METHODS, switch=['unset', 'true', 'false', 'junk(<=2 bytes, != "true")'],
                                             credentials=['unset', 'true', 'false', 'junk(<=2 bytes)'],
                                             alphabet='printable ASCII 0x20-0x7e (configured origins: non-empty, no comma)',
                                             decoy='cases with one extra header before / instead of Origin: name 0-6 ASCII letters != "origin" (any case), value printable')
    chk.assumptions = ['strings are ASCII; configured origins are non-empty and comma-free and reach the process as their comma-join (as bootstrap stores them)',
                       'std models used are listed under coverage.std_models_used; eprintln!/println! are no-ops',
                       'environment is read through std::env::var only (the model fails hard on any other variable)']
    cases = []
    methods = METHODS if chk.tier == 'thorough' else ['GET', 'OPTIONS', 'POST']
    for sw in ('unset', 'true', 'false', 'junk'):
        for k in (B['norigins'] if sw == 'false' else (1,)):
            for cred in (('unset', 'true', 'false', 'junk') if sw == 'false' else ('true',)):
                for org in (True, False):
                    for m in methods:
                        for acrm, acrh in (((True, True), (False, False)) if chk.tier == 'quick' else ((True, True), (False, False), (True, False), (False, True))):
                            cases.append(dict(switch=sw, k=k, cred=cred, origin=org, method=m, acrm=acrm, acrh=acrh))
    # decoy header (name != Origin) before / instead of the Origin header
    for sw in ('unset', 'true', 'false', 'junk'):
        for k in ((1, 2) if sw == 'false' else (1,)):
            for org in (True, False):
                for m in (('GET', 'OPTIONS') if chk.tier == 'quick' else methods):
                    for acrm, acrh in ((True, True), (False, False)):
                        cases.append(dict(switch=sw, k=k, cred='true', origin=org, method=m, acrm=acrm, acrh=acrh, decoy=True))
    for c in cases[::37]: c['sample'] = True
    results = chk.run_cases(case, cases, label='Cors::get_headers symbolic')
    grant_paths = sum(r.get('grant_paths', 0) for r in results)

    # differential validation: interpreter (concrete run of the same MIR) vs native build
    rng = chk.rng
    alpha = 'ab,:/.A'
    def rs(n, lo=0): return ''.join(rng.choice(alpha) for _ in range(rng.randint(lo, n)))
    diffs = []
    lits = [('https://foo.example', ['https://foo.example', 'https://bar.example']), ('https://foo.example', []), ('o', ['xoy'])]
    for i in range(60 if chk.tier == 'quick' else 300):
        if i < len(lits): o, cfg = lits[i]
        else:
            cfg = [rs(4, 1).replace(',', 'c') for _ in range(rng.randint(0, 3))]
            o = rng.choice(cfg) if cfg and rng.random() < 0.4 else rs(5)
        p = dict(switch=rng.choice(['unset', 'true', 'false', 'false', 'false', 'junk']), k=len(cfg), cred=rng.choice(['unset', 'true', 'false', 'junk']),
                 origin=rng.random() < 0.85, method=rng.choice(METHODS), acrm=rng.random() < 0.5, acrh=rng.random() < 0.5, decoy=rng.random() < 0.3)
        w = {'params': p, 'origin': o, 'origins': cfg, 'acrm': rs(3), 'acrh': rs(3), 'meth': rs(3), 'hdrs': rs(3), 'exp': rs(3), 'age': rs(3), 'junk': rng.choice(['x', '', 'TR']), 'dname': rng.choice(['O', 'Or', 'Origi', 'x', '', 'ORIGIN', 'Host']) if False else rng.choice(['O', 'Or', 'Origi', 'x', '', 'Host']), 'dval': rs(5),
             'cred': {'unset': None, 'true': 'true', 'false': 'false', 'junk': rng.choice(['1', 'T', ''])}[p['cred']]}
        diffs.append(w)
    ex = H.new_executor(prog)
    for w in diffs:
        p = w['params']
        conc = {'origin': w['origin'], 'acrm': w['acrm'], 'acrh': w['acrh'], 'meth': w['meth'], 'hdrs': w['hdrs'], 'exp': w['exp'], 'age': w['age'], 'junk': w['junk'], 'credjunk': w['cred'] or '', 'dname': w['dname'], 'dval': w['dval']}
        for i, c in enumerate(w['origins']): conc['cfg%d' % i] = c
        st, req, sy = build(p, B, concrete=conc)
        outs = ex.run_fn('Cors::get_headers', [req], st)
        mine = None
        if len(outs) == 1 and outs[0].outcome[0] == 'return':
            mine = [(n.concrete().decode('latin1'), v.concrete().decode('latin1')) for n, v in headers_of(outs[0].outcome[1])]
        stn, native = run_native(chk.oracle, w)
        chk.diff_cases += 1
        if stn != 'ok' or mine != native:
            chk.inconclusive.append({'status': 'differential-mismatch', 'error': 'interpreter %r vs native %r %r' % (mine, stn, native), 'witness': w})
    chk.extra['grant_paths'] = grant_paths

    def replay(v):
        w = v['witness']
        stn, native = run_native(chk.oracle, w)
        if stn == 'panic': return {'reproduced': v['key'].startswith('panic'), 'native': str(native)}
        if stn != 'ok': return {'reproduced': False, 'native': stn}
        labels = concrete_violation(w, native)
        return {'reproduced': v['text'] in labels or (v['text'].startswith('credentials') and 'credentials' in labels), 'native_headers': native, 'native_labels': labels}

    def vacuity():
        if grant_paths == 0: return 'no explored path ever emitted a grant'
        return None
    chk.finish(replay_fn=replay, vacuity=vacuity)


if __name__ == '__main__':
    main()
