#!/usr/bin/env python3
"""C04 -- every connection is answered; no input can crash the server.  Engine S.
Obligations (DESIGN.md 3/C04):
 (a) Server::process / Server::process_request control skeleton over a fault-injecting transport model and an abstract or
     real application: no panic; once the request bytes have arrived and the transport accepts writes, exactly one
     complete response is written.
 (b) Request::parse on symbolic bytes (several structured shapes): terminal is Ok or Err, never a panic.
 (c) App::execute / App::handle_request on symbolic requests over the symbolic filesystem: no panic.
 (d) Log::request_response arithmetic on symbolic part sizes: no overflow.
Stack exhaustion is outside the claim (needs machine frame sizes)."""
from appsweep import *
from mirse import models as MODELS
from mirse.pool import closure_fn as P_closure_fn
from mirse.engine import Closure, Unsupported
import re
import re as _re


def plan(t):
    q = t == 'quick'
    return dict(tail_cap=5 if q else 6, raw_cap=4 if q else 5, hv_cap=3 if q else 4, target_caps=(2, 3), line_caps=(3, 2, 8) if q else (4, 3, 8),
                methods=['GET', 'POST'] if q else ['GET', 'HEAD', 'POST', 'OPTIONS'], body_cap=3 if q else 4)


def panic_key(o, where_prefix):
    fn = _re.sub(r'@bb\d+', '', o.outcome[2].split(' > ')[-1]) if len(o.outcome) > 2 and o.outcome[2] else '?'
    fn = _re.sub(r'<[^>]*>::', '', fn)
    msg = o.outcome[1]
    msg = _re.sub(r'\d+', 'N', msg)[:60]
    return 'C04:panic:%s:%s' % (fn, msg)


# ------------------------------------------------------------------ (b) parser
def case_parse(prog, params):
    P = plan(H.tier())
    ex = H.new_executor(prog)
    cons = []; sy = {}
    shape = params['shape']
    if shape == 'raw':
        data = SymStr.fresh('raw', P['raw_cap'], cons); sy['raw'] = data
    elif shape == 'tail':
        t = SymStr.fresh('tail', P['tail_cap'], cons); sy['tail'] = t
        data = S('GET / HTTP/1.1\r\n').concat(t)
    elif shape == 'header':
        n = SymStr.fresh('hn', P['hv_cap'], cons, alphabet=printable); v = SymStr.fresh('hv', P['hv_cap'], cons); sy['hn'] = n; sy['hv'] = v
        data = SymStr.join([S('GET / HTTP/1.1\r\n'), n, S(': '), v, S('\r\n\r\n')])
    elif shape == 'known-header':
        v = SymStr.fresh('hv', P['hv_cap'], cons); sy['hv'] = v
        data = SymStr.join([S('GET / HTTP/1.1\r\n' + params['name'] + ': '), v, S('\r\n\r\nab')])
    elif shape == 'numeric-header':
        v = SymStr.fresh('hv', params['digits'], cons, exact_len=params['digits'], alphabet=[48 + d for d in range(10)]); sy['hv'] = v
        data = SymStr.join([S('GET / HTTP/1.1\r\n' + params['name'] + ': '), v, S('\r\n\r\nab')])
    elif shape == 'line':
        a, b, c_ = P['line_caps']
        m = SymStr.fresh('m', a, cons); u = SymStr.fresh('u', b, cons); v = SymStr.fresh('v', c_, cons)
        sy.update(m=m, u=u, v=v)
        data = SymStr.join([m, S(' '), u, S(' '), v, S('\r\n\r\n')])
    st = State(); st.pc = list(cons)
    res = {'violations': [], 'inconclusive': [], 'samples': [], 'kinds': {}}

    def term(o):
        k = outcome_kind(o.outcome); res['kinds'][k] = res['kinds'].get(k, 0) + 1
        if o.outcome[0] == 'panic':
            r, m = ex.check(o.pc)
            if r != 'sat': return
            raw = model_bytes(m, data)
            res['violations'].append({'key': panic_key(o, 'parse'), 'text': 'Request::parse panics (%s at %s) on %r' % (o.outcome[1], o.outcome[2], raw),
                                      'witness': {'kind': 'parse', 'raw': raw.hex()}})
        elif o.outcome[0] == 'stop' and not o.outcome[1].startswith('domain:'):
            res['inconclusive'].append({'status': o.outcome[1], 'error': str(o.outcome[2])[:200]})
    ex.run_fn('Request::parse', [data], st, on_terminal=term)
    res.update(H.ex_summary(ex))
    res['samples'].append({'obligation': 'Request::parse never panics', 'shape': params, 'kinds': res['kinds']})
    return res


# ------------------------------------------------------------------ (c) handlers
def case_handlers(prog, params):
    P = plan(H.tier())
    ex = new_ex(prog)
    B = dict(target_cap=params['tlen'], content_cap=2)
    p2 = dict(params)
    hs = []
    cons_extra = []
    body = b''
    if params.get('ctype'):
        hs.append(('Content-Type', params['ctype']))
    st, req, sy = build_state(dict(p2, headers=hs), B)
    if params.get('body_template') == 'multipart':
        ex.fork_read_until = 6
        # one well-framed part: the disposition value (structured prefix + 2 arbitrary printable bytes) and the part body (2 arbitrary
        # bytes) are symbolic, the framing is concrete, so the controller's per-part code is reached
        cons = []
        ln_ = params.get('lens', (2, 2))
        tail = SymStr.fresh('dtail', ln_[0], cons, exact_len=ln_[0], alphabet=[b for b in range(0x20, 0x7f) if b != 0x2d]) if ln_[0] else S('')
        val = SymStr.fresh('pbody', ln_[1], cons, exact_len=ln_[1], alphabet=[b for b in range(256) if b != 0x2d]) if ln_[1] else S('')
        disp = S(params['disp_prefix']).concat(tail)
        eol = params.get('eol', '\r\n')
        bsym = S('--QQ' + eol + 'Content-Disposition: ').concat(disp).concat(S(eol + eol)).concat(val).concat(S(eol + '--QQ--' + eol))
        st.pc.extend(cons); sy['body'] = bsym
        req = Struct('Request', req.fields[:4] + (bsym,))
    elif params.get('body_sym'):
        cons = []
        bsym = SymStr.fresh('body', P['body_cap'], cons)
        st.pc.extend(cons); sy['body'] = bsym
        req = Struct('Request', req.fields[:4] + (bsym,))
    res = {'violations': [], 'inconclusive': [], 'samples': [], 'kinds': {}}

    def term(o):
        k = outcome_kind(o.outcome); res['kinds'][k] = res['kinds'].get(k, 0) + 1
        if o.outcome[0] == 'panic':
            r, m = ex.check(o.pc)
            if r != 'sat': return
            t = model_bytes(m, sy['target'])
            w = {'kind': 'handlers', 'params': params, 'target': t.decode('latin1')}
            if 'body' in sy: w['body'] = model_bytes(m, sy['body']).hex()
            if 'range' in sy: w['range'] = model_bytes(m, sy['range']).decode('latin1')
            fsd = []
            for e in o.world['fs']['entries']:
                kind = m.eval(e.kind, model_completion=True).as_long()
                fsd.append((model_bytes(m, e.path).decode('latin1'), kind, model_bytes(m, e.content).hex()))
            w['fs'] = fsd
            res['violations'].append({'key': panic_key(o, 'handlers'), 'text': '%s panics (%s at %s) for %s %r' % (params['entry'], o.outcome[1], o.outcome[2], params['method'], t),
                                      'witness': w})
        elif o.outcome[0] == 'stop' and not (o.outcome[1].startswith('domain:') or o.outcome[1] == 'fs-mutation'):
            res['inconclusive'].append({'status': o.outcome[1], 'error': str(o.outcome[2])[:200]})
    run_entry(ex, st, req, params['entry'], on_terminal=term)
    res.update(H.ex_summary(ex))
    if params.get('sample'): res['samples'].append({'obligation': 'handlers never panic', 'case': params, 'kinds': res['kinds']})
    return res


# ------------------------------------------------------------------ (a) skeleton
def mk_abstract_response(ex, st):
    cons = []
    body = SymStr.fresh(ex.fresh('rb'), 2, cons)
    st.pc.extend(cons)
    cr = Struct('ContentRange', (S('bytes'), Struct('Range', (Int('u64', 0), Int('u64', body.length()))), S('2'), body, S('text/plain')))
    return Struct('Response', (S('HTTP/1.1'), Int('i16', 200), S('OK'), Vec([header('X-A', 'b')]), Vec([cr])))


def io_script(m, io, o):
    script = []
    for e in io:
        if e[0] == 'write': script.append(str(model_int(m, e[2])))
        elif e[0] == 'write_err': script.append('E')
        elif e[0] == 'flush' and not e[1]: script.append('f')
        elif e[0] == 'read' and not e[1]: script.append('r')
    if o.world.get('app_failed'): script.append('A')
    return script


def case_skeleton(prog, params):
    ex = new_ex(prog)
    st = State()
    req = params['request'].encode('latin1')
    st.world['env'] = dict(CORS_ENV_ALLOW_ALL)
    st.world['env'][b'RWS_CONFIG_REQUEST_ALLOCATION_SIZE_IN_BYTES'] = S(str(len(req)))
    st.world['fs'] = ENV.new_fs(content_cap=2)
    st.world['stream'] = {'input': S(req)}
    st.world['app_mode'] = params['app']
    st.world['app_mk_response'] = mk_abstract_response
    res = {'violations': [], 'inconclusive': [], 'samples': [], 'kinds': {}}
    entry = params['entry']

    def term(o):
        io = o.world.get('io', ())
        shape = tuple(e[0] + (':' + str(e[1]) if e[0] in ('read', 'flush') else '') for e in io)
        k = outcome_kind(o.outcome) + ' ' + ' '.join(shape); res['kinds'][k] = res['kinds'].get(k, 0) + 1
        if o.outcome[0] == 'panic':
            r, m = ex.check(o.pc)
            if r != 'sat': return
            script = io_script(m, io, o)
            res['violations'].append({'key': panic_key(o, 'process'), 'text': '%s panics (%s at %s) with transport events %s' % (entry, o.outcome[1], o.outcome[2], shape),
                                      'witness': {'kind': 'skeleton', 'entry': entry, 'request': req.hex(), 'script': script, 'app': params['app']}})
            return
        if o.outcome[0] == 'stop' and o.outcome[1] == 'bound:unroll':
            # a loop of the connection job is still running after the unroll bound on a feasible transport schedule (e.g. reads that
            # keep returning Ok(0) at end of stream): candidate "the job never returns" -- decided by the native replay under a watchdog
            r, m = ex.check(o.pc)
            if r == 'sat':
                res['violations'].append({'key': 'C04:job-does-not-return:%s' % entry, 'text': '%s is still looping after %d iterations (%s) with transport events %s' % (entry, ex.max_block_visits, o.outcome[2], shape[:12]),
                                          'witness': {'kind': 'skeleton', 'entry': entry, 'request': req.hex(), 'script': io_script(m, io[:40], o), 'app': params['app'], 'expect': 'hang'}})
            return
        if o.outcome[0] == 'stop':
            if not o.outcome[1].startswith('domain:'): res['inconclusive'].append({'status': o.outcome[1], 'error': str(o.outcome[2])[:200]})
            return
        # exactly one complete response when the bytes arrived and the transport accepted the writes
        read_ok = any(e[0] == 'read' and e[1] for e in io)
        writes = [e for e in io if e[0] == 'write']; werr = [e for e in io if e[0] == 'write_err']
        if read_ok and not werr:
            if len(writes) != 1:
                r, m = ex.check(o.pc)
                if r == 'sat':
                    res['violations'].append({'key': 'C04:responses-written-%d:%s' % (len(writes), entry), 'text': '%s writes %d responses on one connection' % (entry, len(writes)),
                                              'witness': {'kind': 'skeleton', 'entry': entry, 'request': req.hex(), 'script': io_script(m, io, o), 'app': params['app'], 'expect_writes': 1}})
    if entry == 'job':
        # the connection job itself: the closure Server::run hands to the pool, with its captures (stream, connection, app)
        fn = P_closure_fn(prog, r'server::.*::run::\{closure#0\}')
        if fn is None: raise Unsupported('connection job closure not found in Server::run')
        caps = {}
        for blk in fn.blocks.values():
            for stt in blk:
                for m_ in re.finditer(r"\('_1', \(\('f', (\d+), (?:'([^']*)'|\"([^\"]*)\")\),?\)\)", repr(stt)): caps[int(m_.group(1))] = m_.group(2) or m_.group(3)
        vals = []
        for i in range(max(caps) + 1 if caps else 0):
            t = caps.get(i, '')
            vals.append(Opaque('Stream') if 'TcpStream' in t else conn_info(len(req)) if 'ConnectionInfo' in t else Struct('App', ()))
        res['job_captures'] = [caps.get(i, '?') for i in range(len(vals))]
        ex.run_fn(fn, [Closure(fn.params[0][1], vals)], st, on_terminal=term)
    elif entry == 'process':
        ex.run_fn('Server::process', [Opaque('Stream'), conn_info(len(req)), Struct('App', ())], st, on_terminal=term)
    else:
        ex.run_fn('Server::process_request', [Opaque('Stream'), Opaque('SocketAddr', (Opaque('IpAddr', b'127.0.0.1'), Int('u16', 5)))], st, on_terminal=term)
    res.update(H.ex_summary(ex))
    res['samples'].append({'obligation': 'process skeleton', 'case': params, 'kinds': res['kinds']})
    return res


# ------------------------------------------------------------------ (d) log arithmetic
def case_log_header(prog, params):
    """Log::request_response on a request / response carrying one long header value (valid UTF-8 over {a, U+00E9}): lengths around
    the powers of two where truncation / buffering code has its edges"""
    ex = new_ex(prog); ex.allow_non_ascii = True
    cons = []
    n = params['hv_len']
    v = SymStr.fresh('hv', n, cons, exact_len=n, alphabet=[0x61, 0xC3, 0xA9])
    cons.append(zb(MODELS.utf8_valid(v.flat())))
    req = request('GET', '/a', [header('Cookie', v)] if params['where'] == 'request' else [])
    resp = Struct('Response', (S('HTTP/1.1'), Int('i16', 200), S('OK'), Vec([header('X-A', v)] if params['where'] == 'response' else []), Vec([])))
    st = State(); st.pc = list(cons)
    res = {'violations': [], 'inconclusive': [], 'samples': [], 'kinds': {}}
    outs = ex.run_fn('Log::request_response', [req, resp, Opaque('SocketAddr', (Opaque('IpAddr', b'127.0.0.1'), Int('u16', 5)))], st)
    for o in outs:
        k = outcome_kind(o.outcome); res['kinds'][k] = res['kinds'].get(k, 0) + 1
        if o.outcome[0] == 'panic':
            r, m = ex.check(o.pc)
            if r == 'sat':
                hv = model_bytes(m, v)
                res['violations'].append({'key': 'C04:panic:Log::request_response:long-header-value', 'text': 'Log::request_response panics (%s) for a %d-byte %s header value' % (o.outcome[1], n, params['where']),
                                          'witness': {'kind': 'log-header', 'where': params['where'], 'value': hv.hex()}})
        elif o.outcome[0] == 'stop' and not o.outcome[1].startswith(('domain:', 'bound:itoa')):
            res['inconclusive'].append({'status': o.outcome[1], 'error': str(o.outcome[2])[:200]})
    res.update(H.ex_summary(ex))
    res['samples'].append({'obligation': 'log of long header values', 'case': params, 'kinds': res['kinds']})
    return res


def case_log(prog, params):
    if params.get('hv_len') is not None: return case_log_header(prog, params)
    ex = new_ex(prog)
    cons = []
    sizes = [SymStr.fresh('size%d' % i, 10, cons, minlen=1, alphabet=[48 + d for d in range(10)]) for i in range(params['parts'])]
    crs = [Struct('ContentRange', (S('bytes'), Struct('Range', (Int('u64', 0), Int('u64', 1))), s, S('a'), S('text/plain'))) for s in sizes]
    resp = Struct('Response', (S('HTTP/1.1'), Int('i16', 206), S('Partial Content'), Vec([]), Vec(crs)))
    req = request('GET', '/a', [])
    st = State(); st.pc = list(cons)
    res = {'violations': [], 'inconclusive': [], 'samples': [], 'kinds': {}}
    outs = ex.run_fn('Log::request_response', [req, resp, Opaque('SocketAddr', (Opaque('IpAddr', b'127.0.0.1'), Int('u16', 5)))], st)
    for o in outs:
        k = outcome_kind(o.outcome); res['kinds'][k] = res['kinds'].get(k, 0) + 1
        if o.outcome[0] == 'panic':
            r, m = ex.check(o.pc)
            if r == 'sat':
                ss = [model_bytes(m, s).decode() for s in sizes]
                res['violations'].append({'key': 'C04:overflow:Log::request_response:part-sizes', 'text': 'Log::request_response overflows adding part sizes %s (%s)' % (ss, o.outcome[1]),
                                          'witness': {'kind': 'log', 'sizes': ss}})
        elif o.outcome[0] == 'stop' and not o.outcome[1].startswith(('domain:', 'bound:itoa')):
            res['inconclusive'].append({'status': o.outcome[1], 'error': str(o.outcome[2])[:200]})
    res.update(H.ex_summary(ex))
    res['samples'].append({'obligation': 'log arithmetic', 'case': params, 'kinds': res['kinds']})
    return res


def case(prog, params):
    return {'parse': case_parse, 'handlers': case_handlers, 'skeleton': case_skeleton, 'log': case_log}[params['ob']](prog, params)


def replay_native(chk, v):
    w = v['witness']; import tempfile, shutil
    if w['kind'] == 'parse':
        st, out = chk.oracle.run([('request_parse', [bytes.fromhex(w['raw'])])])[0]
        return {'reproduced': st == 'panic', 'native': st, 'detail': out[0].decode('latin1')[:200] if out else ''}
    if w['kind'] == 'log-header':
        hv = bytes.fromhex(w['value'])
        reqb = b'GET /a HTTP/1.1\r\nCookie: ' + hv + b'\r\n\r\n'
        st, out = chk.oracle.run([('process', [reqb, len(reqb)])], env={'RWS_CONFIG_CORS_ALLOW_ALL': 'true'})[0]
        return {'reproduced': st == 'panic', 'native': st, 'detail': out[0].decode('latin1')[:200] if out else ''}
    if w['kind'] == 'log':
        st, out = chk.oracle.run([('log_sizes', [s.encode() for s in w['sizes']])])[0]
        return {'reproduced': st == 'panic', 'native': st, 'detail': out[0].decode('latin1')[:200] if out else ''}
    base = tempfile.mkdtemp(prefix='c04_')
    try:
        root = os.path.join(base, 'root'); os.makedirs(root)
        if w['kind'] == 'handlers':
            p = w['params']
            for path, kind, content in w.get('fs', []):
                rel = path[len('/r'):] if path.startswith('/r') else '/' + path
                import posixpath
                real = posixpath.normpath(root + rel)
                if not real.startswith(base): continue
                try:
                    if kind == 2: os.makedirs(real, exist_ok=True)
                    elif kind == 1:
                        os.makedirs(os.path.dirname(real), exist_ok=True)
                        if not os.path.isdir(real): open(real, 'wb').write(bytes.fromhex(content))
                except OSError:
                    pass
            reqb = ('%s %s HTTP/1.1\r\n' % (p['method'], w['target'])).encode('latin1')
            if p.get('ctype'): reqb += ('Content-Type: %s\r\n' % p['ctype']).encode()
            if 'range' in w: reqb += ('Range: %s\r\n' % w['range']).encode('latin1')
            reqb += b'\r\n' + bytes.fromhex(w.get('body', ''))
            cmd = 'process' if p['entry'] == 'execute' else 'process_request'
            st, out = chk.oracle.run([(cmd, [reqb, len(reqb)])], cwd=root, env={'RWS_CONFIG_CORS_ALLOW_ALL': 'true'})[0]
            return {'reproduced': st == 'panic', 'native': st, 'request': reqb.decode('latin1'), 'detail': out[0].decode('latin1')[:200] if out and st == 'panic' else ''}
        if w['kind'] == 'skeleton':
            reqb = bytes.fromhex(w['request'])
            cmd = 'process' if w['entry'] in ('process', 'job') else 'process_request'
            st, out = chk.oracle.run([(cmd, [reqb, len(reqb)] + [(int(x) if x.isdigit() else H.Raw(x)) for x in w['script']])], cwd=root, env={'RWS_CONFIG_CORS_ALLOW_ALL': 'true'})[0]
            if w.get('expect') == 'hang':
                return {'reproduced': st == 'timeout', 'native': st}
            if 'expect_writes' in w:
                nw = int(out[2]) if st == 'ok' else -1
                return {'reproduced': st == 'ok' and nw != w['expect_writes'], 'native': st, 'writes': nw}
            return {'reproduced': st == 'panic', 'native': st, 'detail': out[0].decode('latin1')[:200] if out and st == 'panic' else ''}
    finally:
        shutil.rmtree(base, ignore_errors=True)
    return {'reproduced': False}


def main():
    chk = H.Check('C04', 'every connection is answered; no input crashes the server')
    prog = chk.load()
    P = plan(chk.tier); chk.bounds = {k: v for k, v in P.items()}
    lem = lemmas.lemma_filter_string(prog, 5); chk.extra['lemmas'] = [lem]
    if not lem['ok']: chk.inconclusive.append({'status': 'lemma-failed', 'error': str(lem)})
    chk.assumptions = ['transport model: read/write/flush return arbitrary Ok/Err (write accepts an arbitrary non-empty prefix); application either real App or an abstract one returning Ok(any small response) | Err(message)',
                       'request buffer size = request length (no zero padding beyond the request); symbolic filesystem as in C01; detect_mime_type uninterpreted in (c), executed for real in C02',
                       'stack exhaustion (recursion depth of cursor_read = number of header lines) is not decided',
                       'ConnectionInfo.client.ip is a valid IP literal (it is produced by SocketAddr::ip().to_string() in Server::run)']
    cases = []
    for shape in ('raw', 'tail', 'header', 'line'):
        cases.append(dict(ob='parse', shape=shape))
    for name in ('Content-Length', 'Content-Type', 'Range', 'Host'):
        cases.append(dict(ob='parse', shape='known-header', name=name))
    for digits in (19, 20):
        cases.append(dict(ob='parse', shape='numeric-header', name='Content-Length', digits=digits))
    for entry in ('execute', 'legacy'):
        for m in P['methods']:
            for n in P['target_caps']:
                for first in ('slash', 'other'):
                    cases.append(dict(ob='handlers', entry=entry, method=m, tlen=n, first=first, range='none'))
    # fixed-path endpoints with symbolic bodies
    for entry in ('execute', 'legacy'):
        for (m, target, ctype) in (('POST', '/form-url-encoded-enctype-post-method', 'application/x-www-form-urlencoded'), ('POST', '/form-multipart-enctype-post-method', 'multipart/form-data; boundary=b'),
                                   ('GET', '/form-get-method', None), ('POST', '/file-upload/initiate', None)):
            cases.append(dict(ob='handlers', entry=entry, method=m, fixed_target=target, tlen=len(target), ctype=ctype, body_sym=True, first=None, range='none'))
    for entry in ('execute', 'legacy'):
        for dp, ln_ in [(dp, ln_) for dp in ('form-data; name=', 'form-data', 'form-data; name=a; filename=', 'attachment; filename=', 'x; name=', '') for ln_ in ((2, 2), (0, 1))]:
            t_ = '/form-multipart-enctype-post-method'
            cases.append(dict(lens=ln_, ob='handlers', entry=entry, method='POST', fixed_target=t_, tlen=len(t_), ctype='multipart/form-data; boundary=QQ', body_template='multipart', disp_prefix=dp, first=None, range='none'))
        for ln_ in ((0, 0), (0, 1), (1, 2)):      # bare LF line terminators (hand-written clients)
            cases.append(dict(lens=ln_, eol='\n', ob='handlers', entry=entry, method='POST', fixed_target='/form-multipart-enctype-post-method', tlen=35, ctype='multipart/form-data; boundary=QQ', body_template='multipart', disp_prefix='form-data; name=', first=None, range='none'))
    for entry in ('process', 'process_request'):
        for app in (('abstract', 'real') if entry == 'process' else ('real',)):
            for reqs in ('GET /a HTTP/1.1\r\nHost: x\r\n\r\n', 'GET / HTTP/1.1\r\n\r\n', 'BAD\r\n\r\n', 'GET /a HTTP/1.1\r\nRange: bytes=0-0\r\n\r\n'):
                cases.append(dict(ob='skeleton', entry=entry, app=app, request=reqs))
    for parts in (1, 2):
        cases.append(dict(ob='log', parts=parts))
    for n in ((255, 256, 257, 258) if chk.tier == 'quick' else (63, 64, 65, 127, 128, 129, 255, 256, 257, 258, 259, 511, 512, 513, 1023, 1024, 1025)):
        cases.append(dict(ob='log', hv_len=n, where='request'))
    for n in (257, 258): cases.append(dict(ob='log', hv_len=n, where='response'))
    for c in cases[::5]: c['sample'] = True
    chk.run_cases(case, cases, label='C04 obligations')
    chk.finish(replay_fn=lambda v: replay_native(chk, v))


if __name__ == '__main__':
    main()
