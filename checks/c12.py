#!/usr/bin/env python3
"""C12 -- effective settings: command line over config file over environment over defaults.  Engine S.
Kernel: set_default_values, bootstrap (read_system_environment_variables, override_environment_variables_from_config ->
read_config_file / strip_comment / strip_whitespaces, override_environment_variables_from_command_line_args ->
CommandLineArgument::_parse / set_environment_variable).  The process environment is a store model; the config file and
the argument vector are assembled from symbolic values with every combination of presence bits and spellings."""
from common import *
from mirse import envmodels as ENV, models as MODELS
from mirse.models import model as _model

SETTINGS = [
    # env var, short flag, long flag, toml (table, key), default, value alphabet
    ('RWS_CONFIG_IP', 'i', 'ip', ('', 'ip'), '127.0.0.1'),
    ('RWS_CONFIG_PORT', 'p', 'port', ('', 'port'), '7878'),
    ('RWS_CONFIG_THREAD_COUNT', 't', 'thread-count', ('', 'thread_count'), '200'),
    ('RWS_CONFIG_REQUEST_ALLOCATION_SIZE_IN_BYTES', 'r', 'request-allocation-size-in-bytes', ('', 'request-allocation-size-in-bytes'), '10000'),
    ('RWS_CONFIG_CORS_ALLOW_ALL', 'a', 'cors-allow-all', ('cors', 'allow_all'), 'true'),
    ('RWS_CONFIG_CORS_ALLOW_ORIGINS', 'o', 'cors-allow-origins', ('cors', 'allow_origins'), ''),
    ('RWS_CONFIG_CORS_ALLOW_METHODS', 'm', 'cors-allow-methods', ('cors', 'allow_methods'), ''),
    ('RWS_CONFIG_CORS_ALLOW_HEADERS', 'h', 'cors-allow-headers', ('cors', 'allow_headers'), ''),
    ('RWS_CONFIG_CORS_ALLOW_CREDENTIALS', 'c', 'cors-allow-credentials', ('cors', 'allow_credentials'), ''),
    ('RWS_CONFIG_CORS_EXPOSE_HEADERS', 'e', 'cors-expose-headers', ('cors', 'expose_headers'), ''),
    ('RWS_CONFIG_CORS_MAX_AGE', 'g', 'cors-max-age', ('cors', 'max_age'), '86400'),
]
VALB = [ord(c) for c in 'abcxyz0123456789.:/-,=_*']


def args_collect(ex, st, c):
    return Vec(list(st.world['args']))


def env_args(ex, st, c): return Opaque('Args')


def registry():
    import re
    return [(re.compile(r'^args$|^std::env::args$|^env::args$'), env_args), (re.compile(r'^<Args as Iterator>::collect$'), args_collect),
            (re.compile(r'^std::fs::read_to_string$|^read_to_string$|^fs::read_to_string$'), m_read_config)]


def build(params, cons):
    """returns (state, expected dict var -> SymStr, symbols)"""
    idx = params['setting']; var, short, long_, (table, key), default = SETTINGS[idx]
    sy = {}
    def val(name):
        v = SymStr.fresh(name, params['vlen'], cons, exact_len=params['vlen'], alphabet=VALB) if params['vlen'] else S('')
        sy[name] = v; return v
    env = {s[0].encode(): None for s in SETTINGS}
    expected = {s[0]: S(s[4]) for s in SETTINGS}
    if params['env']:
        if params.get('lower_vlen'):
            sy['venv'] = SymStr.fresh('venv', params['lower_vlen'], cons, exact_len=params['lower_vlen'], alphabet=VALB); env[var.encode()] = sy['venv']
        else:
            env[var.encode()] = val('venv')
        expected[var] = sy['venv']
    # a second setting configured in all sources, to check independence
    oidx = params['other']; ovar, oshort, olong, (otable, okey), odef = SETTINGS[oidx]
    lines_top = []; lines_cors = []
    if params['file']:
        v = val('vfile'); expected[var] = v
        spelling = params['file_spelling']
        text = {'bare': [S(key + ' = '), v], 'quoted': [S(key + " = '"), v, S("'")], 'dquoted': [S(key + ' = "'), v, S('"')], 'array': [S(key + ' = ["'), v, S('"]')], 'comment': [S(key + ' = '), v, S(' # note')],
                'hyphen-key': [S(key.replace('_', '-') + ' = '), v]}[spelling]
        (lines_cors if table == 'cors' else lines_top).append(SymStr.join(text))
    if params['other_file']:
        ov = val('ofile'); expected[ovar] = ov
        (lines_cors if otable == 'cors' else lines_top).append(SymStr.join([S(okey + ' = '), ov]))
    cfg = []
    for l in lines_top: cfg += [l, S('\n')]
    if lines_cors:
        cfg.append(S('\n[cors]\n'))
        for l in lines_cors: cfg += [l, S('\n')]
    argv = [S('rws')]
    if params['cli']:
        v = val('vcli'); expected[var] = v
        flag = ('-' + short) if params['cli_spelling'] == 'short' else ('--' + long_)
        argv.append(SymStr.join([S(flag + '='), v]))
    st = State(); st.pc = list(cons)
    st.world['env'] = env
    st.world['args'] = tuple(argv)
    st.world['config_text'] = SymStr.join(cfg) if params['config_present'] else None
    return st, expected, sy, var, ovar


def m_read_config(ex, st, c):
    if 'config_text' in st.world:
        p = MODELS.as_str(ex, st, c.args[0]).concrete()
        st.log(('fs.read', p))
        if p is None or not p.endswith(b'/rws.config.toml'): raise Unsupported('unexpected file read %r' % (p,))
        t = st.world['config_text']
        return Ok(t) if t is not None else Err(Opaque('std::io::Error'))
    return ENV.m_read_to_string(ex, st, c)




def case(prog, params):
    ex = H.new_executor(prog, max_block_visits=300, solver_timeout_ms=300000)
    ex.fork_read_until = 4      # trims of lines with a few symbolic bytes fork on the trimmed range (concrete offsets afterwards)
    ex.models = registry() + ex.models; ex.model_cache = {}
    cons = []
    st, expected, sy, var, ovar = build(params, cons)
    res = {'violations': [], 'inconclusive': [], 'samples': [], 'kinds': {}, 'compared': 0}
    outs = ex.run_fn('set_default_values', [], st)
    finals = []
    for o in outs:
        if o.outcome[0] != 'return':
            finals.append(o); continue
        st2 = State(); st2.pc = list(o.pc); st2.world = dict(o.world)
        finals.extend(ex.run_fn('bootstrap', [], st2))

    def wit(m):
        w = {'params': params}
        for k, v in sy.items(): w[k] = model_bytes(m, v).decode('latin1')
        return w
    for o in finals:
        k = outcome_kind(o.outcome); res['kinds'][k] = res['kinds'].get(k, 0) + 1
        if o.outcome[0] == 'panic':
            r, m = ex.check(o.pc)
            if r == 'sat': res['violations'].append({'key': 'C12:panic', 'text': 'configuration bootstrap panics: %s at %s' % (o.outcome[1], o.outcome[2]), 'witness': wit(m)})
            continue
        if o.outcome[0] != 'return':
            if not o.outcome[1].startswith('domain:'): res['inconclusive'].append({'status': o.outcome[1], 'error': str(o.outcome[2])[:200]})
            continue
        env = o.world['env']; res['compared'] += 1
        for s in SETTINGS:
            name = s[0]; got = env.get(name.encode()); exp = expected[name]
            if got is None: bad = True
            else: bad = b_not(got.eq(exp))
            bad = simp_bool(bad) if not isinstance(bad, bool) else bad
            if bad is False: continue
            r, m = ex.check(o.pc, bad)
            if r == 'unknown': res['inconclusive'].append({'status': 'solver-unknown', 'error': name}); continue
            if r == 'sat':
                w = wit(m); w['setting'] = name; w['got'] = model_bytes(m, got).decode('latin1') if got is not None else None; w['expected'] = model_bytes(m, exp).decode('latin1')
                role = 'wrong-source-wins' if name == var else ('other-setting-changed' if name != ovar else 'second-setting-wrong')
                src = [x for x in ('cli', 'file', 'env') if params[x]]
                spell = ':%s' % params['file_spelling'] if params['file'] and name == var else ''
                res['violations'].append({'key': 'C12:%s:%s:sources=%s%s' % (role, name, '+'.join(src) or 'none', spell),
                                          'text': 'effective %s is %r, expected %r (sources present: %s; %r)' % (name, w['got'], w['expected'], src, {k: v for k, v in w.items() if k.startswith(('v', 'o'))}), 'witness': w})
    res.update(H.ex_summary(ex))
    if params.get('sample'): res['samples'].append({'case': params, 'kinds': res['kinds']})
    return res


def main():
    chk = H.Check('C12', 'settings precedence: command line > config file > environment > default')
    prog = chk.load()
    q = chk.tier == 'quick'
    chk.assumptions = ['the process environment is modelled as a store (std::env::var / set_var); std::fs::read_to_string returns the assembled rws.config.toml text or an error; std::env::args returns the assembled vector',
                       'values are 1-3 (5) bytes from [a-c x-z 0-9 . : / - , = _ *] (no quotes, brackets, blanks or #, which the TOML subset reader treats specially)',
                       'TcpListener::bind and parsing of the numeric settings by their consumers are outside this check']
    cases = []
    spellings = ['bare', 'quoted', 'dquoted', 'array', 'comment']
    for si, s in enumerate(SETTINGS):
        oi = (si + 5) % len(SETTINGS)
        for cli in (False, True):
            for file_ in (False, True):
                for envp in (False, True):
                    for cs in ((('short', 'long') if cli else ('short',))):
                        fss = (spellings if (file_ and (not q or not cli)) else ['bare']) if file_ else ['bare']
                        for fs_ in fss:
                            if fs_ == 'array' and s[3][0] != 'cors': continue
                            cases.append(dict(setting=si, other=oi, cli=cli, file=file_, env=envp, cli_spelling=cs, file_spelling=fs_, other_file=file_, config_present=True, vlen=3 if q else 5))
        cases.append(dict(setting=si, other=oi, cli=True, file=False, env=True, cli_spelling='long', file_spelling='bare', other_file=False, config_present=False, vlen=1))
        # an empty value in a higher-priority source still wins (e.g. `allow_origins = []`, `-o=`); the lower source's value is 1 byte
        cases.append(dict(setting=si, other=oi, cli=True, file=False, env=True, cli_spelling='short', file_spelling='bare', other_file=False, config_present=True, vlen=0, lower_vlen=1))
        cases.append(dict(setting=si, other=oi, cli=False, file=True, env=True, cli_spelling='short', file_spelling='array' if s[3][0] == 'cors' else 'quoted', other_file=False, config_present=True, vlen=0, lower_vlen=1))
        if s[3][1].find('_') >= 0:
            cases.append(dict(setting=si, other=oi, cli=False, file=True, env=True, cli_spelling='short', file_spelling='hyphen-key', other_file=False, config_present=True, vlen=1))
    for c in cases[::23]: c['sample'] = True
    chk.bounds = {'settings': [s[0] for s in SETTINGS], 'source subsets': 'all 8 per setting', 'spellings': ['-x=', '--long='] + spellings + ['hyphen-key'], 'cases': len(cases)}
    results = chk.run_cases(case, cases, label='set_default_values + bootstrap', case_timeout=900)
    chk.extra['final_environments_compared'] = sum(r.get('compared', 0) for r in results)

    def replay(v):
        w = v['witness']; p = w['params']
        si = p['setting']; var, short, long_, (table, key), default = SETTINGS[si]
        ovar, oshort, olong, (otable, okey), odef = SETTINGS[p['other']]
        env = {}
        if p['env']: env[var] = w['venv']
        top = []; cors = []
        if p['file']:
            v_ = w['vfile']; sp = p['file_spelling']
            line = {'bare': '%s = %s', 'quoted': "%s = '%s'", 'dquoted': '%s = "%s"', 'array': '%s = ["%s"]', 'comment': '%s = %s # note', 'hyphen-key': '%s = %s'}[sp] % (key.replace('_', '-') if sp == 'hyphen-key' else key, v_)
            (cors if table == 'cors' else top).append(line)
        if p['other_file']: (cors if otable == 'cors' else top).append('%s = %s' % (okey, w['ofile']))
        text = '\n'.join(top) + ('\n' if top else '') + (('\n[cors]\n' + '\n'.join(cors) + '\n') if cors else '')
        argv = []
        if p['cli']: argv.append((('-' + short) if p['cli_spelling'] == 'short' else ('--' + long_)) + '=' + w['vcli'])
        import tempfile, shutil, subprocess
        base = tempfile.mkdtemp(prefix='c12_')
        try:
            if p['config_present']: open(os.path.join(base, 'rws.config.toml'), 'w').write(text)
            e = {'PATH': os.environ.get('PATH', ''), 'ORACLE_QUIET': '1'}; e.update(env)
            r = subprocess.run([chk.oracle.path, 'bootstrap'] + argv, cwd=base, env=e, stdout=subprocess.PIPE, stderr=subprocess.PIPE, timeout=20)
            got = {}
            for ln in r.stdout.decode('latin1').split('\n'):
                if ln.startswith('@@ENV '):
                    k, _, val = ln[6:].partition('=')
                    got[k] = val
            return {'reproduced': got.get(w['setting']) != w['expected'], 'native_value': got.get(w['setting']), 'expected': w['expected'], 'config': text, 'argv': argv}
        finally:
            shutil.rmtree(base, ignore_errors=True)
    chk.finish(replay_fn=replay, vacuity=lambda: None if chk.extra['final_environments_compared'] else 'bootstrap never completed')


if __name__ == '__main__':
    main()
