"""Whole-connection pipeline (Server::process with the real App) over the transport + filesystem models, and a structural
reader for the response bytes it writes (a rope of concrete text and symbolic pieces).  Used by C05 C10 C13 C09 C08."""
from appsweep import *
import re as _re

REQUIRED = [('X-Content-Type-Options', b'nosniff'), ('X-Frame-Options', b'SAMEORIGIN'), ('Accept-Ranges', b'bytes')]
STATUS = {}


def load_status_table():
    """registered (code, reason) pairs, read from the repository source at run time (independent of the MIR)"""
    if STATUS: return STATUS
    src = open(os.path.join(H.REPO, 'src', 'response', 'mod.rs')).read()
    for m in _re.finditer(r'status_code:\s*&(\d+),\s*reason_phrase:\s*"([^"]*)"', src):
        STATUS[int(m.group(1))] = m.group(2)
    return STATUS


class Piece:
    """element of a structural line: concrete bytes or a symbolic atom"""
    def __init__(s, conc=None, atom=None): s.conc = conc; s.atom = atom

    def __repr__(s): return repr(s.conc) if s.conc is not None else '<sym cap=%d>' % s.atom.cap


def pieces_of(data):
    """atoms of the rope as pieces; adjacent concrete runs are merged (a CRLF may straddle two atoms) and an atom of concrete
    length whose bytes are partly symbolic is cut into its concrete and symbolic runs"""
    out = []

    def put_conc(c):
        if not c: return
        if out and out[-1].conc is not None: out[-1] = Piece(conc=out[-1].conc + c)
        else: out.append(Piece(conc=c))
    for a in data.segs:
        c = a.concrete()
        if c is not None: put_conc(c); continue
        if a.conc_len:
            run = []; sym = []
            for b in a.bs:
                if isinstance(b, int):
                    if sym: out.append(Piece(atom=Atom(len(sym), tuple(sym)))); sym = []
                    run.append(b)
                else:
                    if run: put_conc(bytes(run)); run = []
                    sym.append(b)
            if run: put_conc(bytes(run))
            if sym: out.append(Piece(atom=Atom(len(sym), tuple(sym))))
        else: out.append(Piece(atom=a))
    return out


def split_response(data):
    """-> (status_line pieces, [header line pieces], body pieces, problems).  Splits at CRLF found in *concrete* pieces only;
    symbolic pieces are kept whole inside the line where they occur (that they contain no CR/LF is a separate obligation)."""
    ps = pieces_of(data)
    lines = [[]]; body = None; problems = []
    i = 0
    for idx, p in enumerate(ps):
        if body is not None:
            body.append(p); continue
        if p.atom is not None:
            lines[-1].append(p); continue
        buf = p.conc
        while True:
            k = buf.find(b'\r\n')
            if k < 0:
                if buf: lines[-1].append(Piece(conc=buf))
                break
            if buf[:k]: lines[-1].append(Piece(conc=buf[:k]))
            buf = buf[k + 2:]
            if not lines[-1] and len(lines) > 1:
                # blank line: end of head
                lines.pop(); body = []
                if buf: body.append(Piece(conc=buf))
                break
            lines.append([])
    if body is None:
        problems.append('no blank line terminates the head'); body = []
        if lines and not lines[-1]: lines.pop()
    return (lines[0] if lines else []), lines[1:], body, problems


def line_text(pieces):
    return b''.join(p.conc if p.conc is not None else b'\x00SYM\x00' for p in pieces)


def header_name_value(pieces):
    """(name bytes or None if the name is not concrete, value pieces)"""
    if not pieces or pieces[0].conc is None: return None, pieces
    first = pieces[0].conc
    k = first.find(b': ')
    if k < 0: return None, pieces
    rest = first[k + 2:]
    return first[:k], ([Piece(conc=rest)] if rest else []) + pieces[1:]


def pieces_len(ps):
    n = 0
    for p in ps:
        n = bv_add(n, len(p.conc) if p.conc is not None else p.atom.ln, LW)
    return n


def pieces_str(ps):
    segs = []
    for p in ps:
        segs.append(Atom(len(p.conc), tuple(p.conc)) if p.conc is not None else p.atom)
    return SymStr(segs)


def has_crlf(atom):
    """z3: the symbolic atom contains CR or LF inside its length"""
    cs = []
    for i, b in enumerate(atom.bs):
        inr = bv_ult(i, atom.ln, LW)
        cs.append(b_and(inr, b_or(bv_eq(b, 13, 8), bv_eq(b, 10, 8))))
    return b_or(*cs)


def written_responses(o):
    """list of (data SymStr, accepted) for 'write' events of a terminal state, in order"""
    return [(e[1], e[2]) for e in o.world.get('io', ()) if e[0] == 'write']


def run_process(ex, request_bytes, cons, on_terminal, fs=None, env=None, stream=None, app_mode='real', size=None):
    st = State(); st.pc = list(cons)
    st.world['env'] = dict(CORS_ENV_ALLOW_ALL if env is None else env)
    st.world['fs'] = fs if fs is not None else ENV.new_fs(content_cap=2)
    sd = {'input': request_bytes, 'write_mode': 'ok', 'flush_mode': 'ok', 'read_fail': False}
    if stream: sd.update(stream)
    st.world['stream'] = sd
    st.world['app_mode'] = app_mode
    n = size if size is not None else request_bytes.cap
    return st, ex.run_fn('Server::process', [Opaque('Stream'), conn_info(n), Struct('App', ())], st, on_terminal=on_terminal)


MULTIPART_DISPOSITION_PREFIXES = ('form-data; name=', 'form-data', 'form-data; name=a; filename=', 'attachment; filename=', 'x; name=', '')


def multipart_request(cons, disp_prefix, target='/form-multipart-enctype-post-method', lens=(2, 2), eol='\r\n'):
    """POST of one well-framed multipart/form-data part: the Content-Disposition value (a structured prefix + 2 arbitrary printable
    bytes) and the part body (2 arbitrary bytes) are symbolic, the framing is concrete, so the per-part code of the controller is reached"""
    # '-' is excluded from the symbolic bytes: the parser deletes hyphens from every line before comparing it with the boundary
    # (C16's subject); without it that rewriting folds away
    tail = SymStr.fresh('dtail', lens[0], cons, exact_len=lens[0], alphabet=[b for b in range(0x20, 0x7f) if b != 0x2d]) if lens[0] else S('')
    val = SymStr.fresh('pbody', lens[1], cons, exact_len=lens[1], alphabet=[b for b in range(256) if b != 0x2d]) if lens[1] else S('')
    head = 'POST %s HTTP/1.1\r\nContent-Type: multipart/form-data; boundary=QQ\r\n\r\n' % target
    # eol: line terminator inside the body (browsers send CRLF; bare LF is what hand-written clients send)
    raw = SymStr.join([S(head + '--QQ' + eol + 'Content-Disposition: ' + disp_prefix), tail, S(eol + eol), val, S(eol + '--QQ--' + eol)])
    return raw, {'dtail': tail, 'pbody': val}
