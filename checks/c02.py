#!/usr/bin/env python3
"""C02 -- static resources: the right file, its exact bytes, its media type.  Engine S.
 (a) lookup: App::execute (GET) on targets `/name`, `/name/`, with optional query / fragment, over the symbolic filesystem;
     the file whose bytes are served and the status are compared with the documented precedence written here
     (file itself, else index.html in the named directory, else name + .html, else 404), using the same filesystem
     variables as the code under test; the body must equal that file's content.
 (c) MimeType::detect_mime_type on every name of the stated lengths: the result must be the type registered for the text
     after the last '.', per the (extension -> type) table extracted at run time from the pinned test file
     src/mime_type/tests.rs (independent of the implementation), default application/octet-stream.
 (b) bytes/length of the serialised response are C05's obligations (Content-Length = body bytes)."""
import re as _re
from appsweep import *


def mime_table():
    src = open(os.path.join(H.REPO, 'src', 'mime_type', 'mod.rs')).read()
    consts = dict(_re.findall(r'pub const (\w+): &\'static str = "([^"]*)";', src))
    tests = open(os.path.join(H.REPO, 'src', 'mime_type', 'tests.rs')).read()
    table = {}
    for m in _re.finditer(r'let expected_mime_type = MimeType::(\w+);\s*let request_uri = "([^"]*)";', tests):
        c, uri = m.group(1), m.group(2)
        name = uri.rsplit('/', 1)[-1]
        if '.' not in name: continue
        ext = name.rsplit('.', 1)[1]
        if ext and c in consts: table[ext] = consts[c]
    return table, consts.get('APPLICATION_OCTET_STREAM', 'application/octet-stream')


def case_mime(prog, params):
    table, default = mime_table()
    ex = Executor(prog, lemmas.with_stubs(MODELS.REGISTRY, []), max_block_visits=100)
    cons = []
    n = params['n']
    name = SymStr.fresh('f', n, cons, exact_len=n, alphabet=[ord(c) for c in 'abcdefghijklmnopqrstuvwxyz0123456789./'])
    if params.get('suffix'):
        name = name.concat(S('.' + params['suffix']))
    st = State(); st.pc = list(cons)
    res = {'violations': [], 'inconclusive': [], 'samples': [], 'kinds': {}, 'compared': 0}
    # the reference is defined on file names: the last path segment must have a name part before the dot
    outs = ex.run_fn('MimeType::detect_mime_type', [name], st)
    suffix_cond = {e: name.ends_with(('.' + e).encode()) for e in table}
    for o in outs:
        k = outcome_kind(o.outcome); res['kinds'][k] = res['kinds'].get(k, 0) + 1
        if o.outcome[0] == 'panic':
            r, m = ex.check(o.pc)
            if r == 'sat': res['violations'].append({'key': 'C02:detect_mime_type-panics', 'text': 'detect_mime_type panics on %r' % model_bytes(m, name), 'witness': {'ob': 'mime', 'name': model_bytes(m, name).decode('latin1')}})
            continue
        if o.outcome[0] != 'return':
            if not o.outcome[1].startswith('domain:'): res['inconclusive'].append({'status': o.outcome[1], 'error': str(o.outcome[2])[:200]})
            continue
        R = o.outcome[1].concrete()
        if R is None: res['inconclusive'].append({'status': 'symbolic-result', 'error': 'detect_mime_type returned a non-constant'}); continue
        R = R.decode(); res['compared'] += 1
        bads = []
        for e, ty in table.items():
            if ty != R and suffix_cond[e] is not False:
                # a dot-file such as "/.css" has no extension by the usual convention: require a non-empty stem
                stem_ok = has_stem(name, len(e) + 1)
                bads.append((e, b_and(suffix_cond[e], stem_ok)))
        # names whose extension is not in the table taken from the tests are not judged (the table is a sample of the registry)
        for e, bad in bads:
            bad = simp_bool(bad) if not isinstance(bad, bool) else bad
            if bad is False: continue
            r, m = ex.check(o.pc, bad)
            if r == 'unknown': res['inconclusive'].append({'status': 'solver-unknown', 'error': 'mime'}); continue
            if r == 'sat':
                nm = model_bytes(m, name).decode('latin1')
                exp = table[e] if e else default
                res['violations'].append({'key': 'C02:media-type:%s' % ('extension-' + e if e else 'unregistered-extension'), 'text': 'detect_mime_type(%r) = %r, the table says %r' % (nm, R, exp),
                                          'witness': {'ob': 'mime', 'name': nm, 'expected': exp}})
    res.update(H.ex_summary(ex)); res['samples'].append({'case': params, 'paths': len(outs), 'compared': res['compared']})
    return res


def has_stem(name, tail):
    """the last path segment is longer than `tail` bytes (i.e. there is a name before the final '.ext')"""
    f = name.flat()
    n = f.ln if isinstance(f.ln, int) else None
    if n is None: return True
    k = n - tail       # index where the dot is
    if k <= 0: return False
    return b_not(bv_eq(f.bs[k - 1], 0x2f, 8))


def case_lookup(prog, params):
    ex = new_ex(prog)
    nl = params['nlen']; cons = []
    name = SymStr.fresh('nm', nl, cons, exact_len=nl, alphabet=[ord(c) for c in (params.get('alphabet') or params.get('names') or 'abcxyz0123456789')])
    if params.get('alphabet'):
        f_ = name.flat(); cons.append(f_.bs[0] != 0x2e); cons.append(f_.bs[-1] != 0x2e)      # a dot inside the name, not a dot-file or a trailing dot
    P = S('/d/' if params.get('sub') else '/').concat(name).concat(S('/' if params['slash'] else ''))
    target = P.concat(S(params['tail']))
    req = request('GET', target, [])
    st = State(); st.pc = list(cons)
    st.world['env'] = dict(CORS_ENV_ALLOW_ALL)
    st.world['fs'] = ENV.new_fs(content_cap=2, shared_names=True, symlinks=bool(params.get('symlinks')))
    res = {'violations': [], 'inconclusive': [], 'samples': [], 'kinds': {}, 'compared': 0, 'served': 0}
    root = S(ROOT)
    outs = run_entry(ex, st, req, 'execute')
    for o in outs:
        k = outcome_kind(o.outcome); res['kinds'][k] = res['kinds'].get(k, 0) + 1
        if o.outcome[0] != 'return':
            if o.outcome[0] == 'stop' and not o.outcome[1].startswith('domain:'): res['inconclusive'].append({'status': o.outcome[1], 'error': str(o.outcome[2])[:200]})
            continue
        r_ = response_of(o.outcome, 'execute')
        if r_ is None: continue
        ver, status, reason, headers, crl = resp_fields(r_)
        # reference, over the same filesystem variables (lookups create/consult entries in a scratch copy of the terminal state)
        sc = o.clone()
        def ent(p): return ENV.fs_lookup(ex, sc, p, 'ref')
        eP = ent(root.concat(P))
        idx = root.concat(P).concat(S('index.html' if params['slash'] else '/index.html'))
        eI = ent(idx)
        isfile = lambda e: e.kind == ENV.K_FILE
        isdir = lambda e: e.kind == ENV.K_DIR
        choices = [(isfile(eP), eP)]
        c2 = z3.And(z3.Not(isfile(eP)), isdir(eP), isfile(eI)); choices.append((c2, eI))
        if not params['slash']:
            eH = ent(root.concat(P).concat(S('.html')))
            c3 = z3.And(z3.Not(isfile(eP)), z3.Not(z3.And(isdir(eP), isfile(eI))), isfile(eH)); choices.append((c3, eH))
        none = z3.And([z3.Not(c) for c, _ in choices])
        eD = ent(root.concat(S('/d'))) if params.get('sub') else None
        # a consistent tree: something inside P exists only if P is a directory
        pc = list(sc.pc) + [z3.Implies(eI.kind != ENV.K_ABSENT, isdir(eP))]
        inside = root.concat(P) if params['slash'] else root.concat(P).concat(S('/'))
        for e_ in sc.world['fs']['entries']:
            if e_ is eP: continue
            sw = MODELS.match_at_general(e_.path, 0, inside)
            if sw is False: continue
            pc.append(z3.Implies(z3.And(zb(sw), e_.kind != ENV.K_ABSENT), isdir(eP)))
        if params.get('sub'):
            # everything under /r/d/ exists only if /r/d is a directory
            for e_ in sc.world['fs']['entries']:
                sw = MODELS.match_at_general(e_.path, 0, root.concat(S('/d/')))
                if sw is False: continue
                pc.append(z3.Implies(z3.And(zb(sw), e_.kind != ENV.K_ABSENT), isdir(eD)))
        res['compared'] += 1
        checks = []
        body = crl.items[0].fields[3] if len(crl.items) == 1 else None
        is200 = int_binop('Eq', status, Int('i16', 200)); is404 = int_binop('Eq', status, Int('i16', 404))
        for c, e in choices:
            checks.append(('file-selected-by-lookup-not-served', z3.And(c, zb(b_not(is200)))))
            if body is not None: checks.append(('served-bytes-differ-from-selected-file', z3.And(c, zb(is200), z3.Not(zb(body.eq(e.content))))))
            else: checks.append(('served-part-count-%d' % len(crl.items), z3.And(c, zb(is200))))
        checks.append(('nothing-selected-but-not-404', z3.And(none, zb(b_not(is404)))))
        for label, bad in checks:
            r, m = ex.check(pc, bad)
            if r == 'unknown': res['inconclusive'].append({'status': 'solver-unknown', 'error': label}); continue
            needs_link = False
            if r == 'sat' and params.get('symlinks'):
                # prefer a witness without symbolic links (then it is one of the plain lookup shapes); only a violation that
                # exists with links alone is reported as a symlink case
                nolinks = [z3.Not(e_.link) for e_ in sc.world['fs']['entries'] if e_.link is not None]
                r0, m0 = ex.check(pc + nolinks, bad)
                if r0 == 'sat': m = m0
                else: needs_link = True
            if r == 'sat':
                fsd = [(model_bytes(m, e.path).decode('latin1'), m.eval(e.kind, model_completion=True).as_long(), model_bytes(m, e.content).hex()) +
                       (((model_bytes(m, e.target).decode('latin1'),) if z3.is_true(m.eval(e.link, model_completion=True)) else ()) if e.link is not None else ())
                       for e in sc.world['fs']['entries']]
                t = model_bytes(m, target).decode('latin1')
                kn = {0: 'absent', 1: 'file', 2: 'dir'}
                shape = 'P=%s,index=%s' % (kn[m.eval(eP.kind, model_completion=True).as_long()], kn[m.eval(eI.kind, model_completion=True).as_long()]) + ('' if params['slash'] else ',P.html=%s' % kn[m.eval(eH.kind, model_completion=True).as_long()])
                if needs_link: shape += ',symlink'
                res['violations'].append({'key': 'C02:lookup:%s:%s:%s' % (label, 'dir-target' if params['slash'] else 'plain-target', shape),
                                          'text': '%s for GET %r with files %r (status %s)' % (label, t, fsd, model_int(m, status)), 'witness': {'ob': 'lookup', 'target': t, 'fs': fsd, 'label': label}})
    res.update(H.ex_summary(ex)); res['samples'].append({'case': params, 'kinds': res['kinds'], 'terminal_states_compared': res['compared']})
    return res


def case(prog, params):
    return case_mime(prog, params) if params['ob'] == 'mime' else case_lookup(prog, params)


def main():
    chk = H.Check('C02', 'static resources: right file, exact bytes, media type')
    prog = chk.load()
    q = chk.tier == 'quick'
    table, default = mime_table()
    chk.extra['mime_table_entries_from_pinned_tests'] = len(table)
    lem = lemmas.lemma_filter_string(prog, 5); chk.extra['lemmas'] = [lem]
    if not lem['ok']: chk.inconclusive.append({'status': 'lemma-failed', 'error': str(lem)})
    chk.assumptions = ['(a) names of 1-2 bytes from [abcxyz0-9], files <= 2 bytes, detect_mime_type uninterpreted in the lookup obligation; symbolic links: in the two symlink cases any probed path may be a link to a sibling name (1 byte from {a,b}), at the top level and inside a sub-directory; elsewhere absent',
                       '(c) names over [a-z0-9./]; a name whose last segment starts with the dot (".css") is not required to have a type; the table comes from src/mime_type/tests.rs',
                       'serialised Content-Length/Content-Type framing is decided in C05']
    cases = [dict(ob='mime', n=n) for n in ((1, 2, 3, 4, 5) if q else (1, 2, 3, 4, 5, 6, 7))]
    for ext in (['html', 'js', 'woff2', 'tar'] if q else sorted(table)):
        cases.append(dict(ob='mime', n=2, suffix=ext))
    for nl in ((1,) if q else (1, 2)):
        for slash in (False, True):
            for tail in ('', '?q', '#f'):
                cases.append(dict(ob='lookup', nlen=nl, slash=slash, tail=tail))
    for tail in ('', '?q'):
        cases.append(dict(ob='lookup', nlen=3, slash=False, tail=tail, alphabet='ab.'))
    # symbolic links to sibling files, at the top level and inside a sub-directory
    for sub in (False, True):
        for slash in ((False,) if q else (False, True)):
            cases.append(dict(ob='lookup', nlen=1, slash=slash, tail='', alphabet=None, symlinks=True, sub=sub, names='ab'))
    chk.bounds = {'mime name lengths': [c['n'] for c in cases if c['ob'] == 'mime' and not c.get('suffix')], 'lookup targets': [c for c in cases if c['ob'] == 'lookup']}
    results = chk.run_cases(case, cases, label='C02 obligations', case_timeout=1200)
    chk.extra['compared'] = sum(r.get('compared', 0) for r in results)

    def replay(v):
        w = v['witness']
        if w['ob'] == 'mime':
            st, out = chk.oracle.run([('mime', [w['name'].encode('latin1')])])[0]
            return {'reproduced': st == 'panic' or (st == 'ok' and out[0].decode() != w.get('expected')), 'native': (st, [x.decode('latin1') for x in out])}
        import c10 as C10
        reqb = ('GET %s HTTP/1.1\r\n\r\n' % w['target']).encode('latin1')
        st, raw = C10.native_response(chk, {'request': reqb.hex(), 'fs': w['fs']})
        if st != 'ok': return {'reproduced': False, 'native': st}
        head, _, body = raw.partition(b'\r\n\r\n')
        status = head.split(b'\r\n')[0].decode('latin1')
        # concrete reference on the tree as the replay actually materialises it (parents of existing entries are directories)
        import posixpath
        tree = {}
        for ent_ in w['fs']:
            p, k, c = ent_[0], ent_[1], ent_[2]
            if k == 0: continue
            tree[p.rstrip('/') or '/'] = (k, bytes.fromhex(c))
            d = posixpath.dirname(p.rstrip('/'))
            while d and d != '/r' and d != '/':
                tree.setdefault(d, (2, b'')); d = posixpath.dirname(d)
        P = w['target'].split('?')[0].split('#')[0]
        def f(p):
            e = tree.get(('/r' + p).rstrip('/') or '/', (0, b''))
            if p.endswith('/') and e[0] == 1: return (0, b'')      # "file/" does not resolve
            return e
        sel = None
        if f(P)[0] == 1: sel = f(P)[1]
        elif f(P)[0] == 2 and f(P + ('index.html' if P.endswith('/') else '/index.html'))[0] == 1: sel = f(P + ('index.html' if P.endswith('/') else '/index.html'))[1]
        elif not P.endswith('/') and f(P + '.html')[0] == 1: sel = f(P + '.html')[1]
        if sel is None: return {'reproduced': ' 404 ' not in status + ' ', 'native_status': status}
        return {'reproduced': not (' 200 ' in status + ' ' and body == sel), 'native_status': status, 'native_body': body.hex(), 'selected': sel.hex()}
    chk.finish(replay_fn=replay, vacuity=lambda: None if chk.extra['compared'] else 'nothing compared')


if __name__ == '__main__':
    main()
