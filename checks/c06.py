#!/usr/bin/env python3
"""C06 -- serving capacity survives any history of connections.  Engines S + T.
Reduction (DESIGN.md 3/C06): a worker is lost only if (i) its job unwinds, (ii) its loop exits, or (iii) the accept loop
returns.  (i) the connection job = closure passed to pool.execute in Server::run -> Server::process: executed symbolically
over the fault-injecting transport for several request shapes and an abstract/real application -- no panic terminal may be
feasible (the parser/handler panics themselves are C04's obligations and are re-checked there).  (ii) engine T: the worker
automaton extracted from MIR has no exit edge, and with task bodies that may panic the BMC shows which worker states are
reachable: a panicking job kills its worker (there is no catch_unwind), so (i) is what keeps workers alive; a panic while
the queue lock is held would poison it for everyone.  (iii) Server::run's MIR executed with a nondeterministic accept
stream: the loop must not be left after an accept / address error."""
from appsweep import *
from mirse import pool as P
import c04 as C04


class RunEx(P.PoolExecutor):
    pass


def accept_models():
    from mirse.models import model as _m
    reg = []
    import re

    def add(pats, fn):
        for p in pats: reg.append((re.compile(p), fn))

    def incoming(ex, st, c): return Opaque('Incoming', 0)
    add([r'^TcpListener::incoming$', r'^std::net::TcpListener::incoming$'], incoming)

    def next_(ex, st, c):
        it = ex.deref(st, c.args[0])
        k = it.data
        if k >= st.world['accept_bound']:
            return StopR('accept-bound', 'accept loop still running after %d connections' % k)
        ok = z3.Bool(ex.fresh('accept_ok'))
        ref = c.args[0]
        from mirse.models import ForkStore
        st.log(('accept-call', k))
        return ForkStore([(ok, P._Ev(('accept', 'ok', k), Some(Ok(Opaque('TcpStream', k)))), (ref, Opaque('Incoming', k + 1))),
                          (z3.Not(ok), P._Ev(('accept', 'err', k), Some(Err(Opaque('std::io::Error')))), (ref, Opaque('Incoming', k + 1)))])
    add([r"^<std::net::Incoming<'_> as Iterator>::next$"], next_)

    def addr(ex, st, c):
        ok = z3.Bool(ex.fresh('addr_ok'))
        which = 'local' if 'local' in c.callee else 'peer'
        return Fork([(ok, P._Ev((which + '_addr', 'ok'), Ok(Opaque('SocketAddr', (Opaque('IpAddr', b'127.0.0.1'), Int('u16', 5)))))),
                     (z3.Not(ok), P._Ev((which + '_addr', 'err'), Err(Opaque('std::io::Error'))))])
    add([r'^TcpStream::local_addr$', r'^TcpStream::peer_addr$'], addr)
    return reg


def run_accept_loop(prog, bound):
    ex = P.PoolExecutor(prog)
    ex.models = accept_models() + ex.models
    ex.model_cache = {}
    st = State()
    st.world['accept_bound'] = bound
    st.world['env'] = {b'RWS_CONFIG_IP': S('127.0.0.1'), b'RWS_CONFIG_PORT': S('7878'), b'RWS_CONFIG_THREAD_COUNT': S('2'), b'RWS_CONFIG_REQUEST_ALLOCATION_SIZE_IN_BYTES': S('64')}
    pool = Struct('ThreadPool', (Vec(()), Opaque('Sender')))
    outs = ex.run_fn('Server::run', [Opaque('TcpListener'), pool, Struct('App', ())], st)
    return ex, outs


def main():
    chk = H.Check('C06', 'serving capacity survives any history of connections')
    prog = chk.load()
    quick = chk.tier == 'quick'
    lem = lemmas.lemma_filter_string(prog, 5); chk.extra['lemmas'] = [lem]
    chk.assumptions = ['a worker disappears only by unwinding out of its job, by leaving its loop, or because the accept loop ends (std::thread semantics; no catch_unwind in the pool -- checked in MIR: the job call has only cleanup successors on unwind)',
                       'transport / application / filesystem models as in C04; contracts of Mutex and mpsc as in C07',
                       'panics reachable inside request parsing and the handlers are C04 obligations; the known finding there (non-numeric port in the target authority, inside the url-build-parse dependency) also costs a worker here']
    # (iii) accept loop
    bound = 2 if quick else 3
    ex, outs = run_accept_loop(prog, bound)
    chk.used_fns.update(ex.used_fns); chk.used_models.update(ex.used_models)
    for k in ('paths', 'queries', 'sat', 'unsat', 'unknown', 'solver_s', 'steps', 'forks', 'model_hits'): chk.stats[k] += ex.stats.get(k, 0)
    kinds = {}
    for o in outs:
        evs = [e for e in o.trace if e[0] in ('accept', 'local_addr', 'peer_addr', 'send')]
        k = outcome_kind(o.outcome); kinds[k] = kinds.get(k, 0) + 1
        if o.outcome[0] == 'return':
            # the loop was left although the listener would have produced more connections
            last = [e for e in evs if e[0] in ('accept', 'local_addr', 'peer_addr')]
            cause = last[-1] if last else ('?',)
            chk.violations.append({'key': 'C06:accept-loop-exits-after-%s-%s' % (cause[0], cause[1] if len(cause) > 1 else ''),
                                   'text': 'Server::run returns (the server stops accepting connections for good) after events %s' % (evs,), 'witness': {'kind': 'accept', 'events': [list(map(str, e)) for e in evs]}})
        elif o.outcome[0] == 'panic':
            chk.violations.append({'key': 'C06:accept-loop-panics', 'text': 'Server::run panics: %s at %s after %s' % (o.outcome[1], o.outcome[2], evs), 'witness': {'kind': 'accept', 'events': [list(map(str, e)) for e in evs]}})
        elif o.outcome[0] == 'stop' and o.outcome[1] != 'accept-bound':
            chk.inconclusive.append({'status': o.outcome[1], 'error': str(o.outcome[2])[:200]})
        # every accepted connection must have been handed to the pool
        n_ok = len([e for e in evs if e[0] == 'accept' and e[1] == 'ok'])
    chk.extra['accept_loop_terminal_kinds'] = kinds
    chk.samples.append({'obligation': 'accept loop', 'bound_connections': bound, 'terminal_kinds': kinds})
    # (ii) worker automaton
    w = P.extract_worker(prog)
    auto = P.Automaton(w['traces'])
    chk.extra['worker_iteration_traces'] = [[list(map(list, evs)), kind] for evs, kind in w['traces']]
    for evs, kind in w['traces']:
        if kind == 'exit': chk.violations.append({'key': 'C06:worker-loop-exits', 'text': 'worker loop can exit: %s' % (evs,), 'witness': {'kind': 'worker', 'trace': [list(e) for e in evs]}})
    # the job call must not be wrapped: a panicking task kills exactly its worker; check what a panic costs
    nq = 0
    for (N, jobs) in ([(2, ['panic', 'instant', 'instant'])] if quick else [(2, ['panic', 'instant', 'instant']), (3, ['panic', 'instant', 'rv', 'rv'])]):   # the rendezvous pair needs the two surviving workers
        K = len(jobs) * 6 + N + 1
        r, wit, dt = P.bmc(auto, N, jobs, K, 'stuck'); nq += 1
        chk.stats['queries'] += 1; chk.stats[r] += 1; chk.stats['solver_s'] += dt
        chk.samples.append({'obligation': 'pool with a panicking task', 'N': N, 'tasks': jobs, 'query': 'stuck state with an unfinished task', 'result': r})
        if r == 'sat':
            chk.violations.append({'key': 'C06:panicking-task-blocks-the-pool', 'text': 'after a task panics the remaining tasks are never run: N=%d tasks=%s schedule=%s final=%s' % (N, jobs, wit['schedule'], wit['final']),
                                   'witness': {'kind': 'pool', 'N': N, 'tasks': ''.join({'panic': 'p', 'instant': 'i', 'rv': 'r'}[j] for j in jobs)}})
        elif r == 'unknown': chk.inconclusive.append({'status': 'solver-unknown', 'error': 'pool panic bmc'})
    # simultaneous capacity: N connections that all have to be in flight at once (a stalled connection next to a live one is the
    # N=2 instance) must all be served by N workers -- a queue lock held while a job runs serialises the pool
    for (N, jobs) in ([(2, ['rv', 'rv'])] if quick else [(2, ['rv', 'rv']), (3, ['rv', 'rv', 'rv']), (2, ['instant', 'rv', 'rv'])]):
        K = len(jobs) * 6 + N + 1
        r, wit, dt = P.bmc(auto, N, jobs, K, 'stuck'); nq += 1
        chk.stats['queries'] += 1; chk.stats[r] += 1; chk.stats['solver_s'] += dt
        chk.samples.append({'obligation': 'N simultaneous connections on N workers', 'N': N, 'tasks': jobs, 'query': 'stuck state with an unfinished task', 'result': r})
        if r == 'sat':
            chk.violations.append({'key': 'C06:fewer-than-N-simultaneous-connections', 'text': 'N=%d workers cannot hold %s connections in flight at once: schedule=%s final=%s' % (N, jobs, wit['schedule'], wit['final']),
                                   'witness': {'kind': 'pool', 'N': N, 'tasks': ''.join({'panic': 'p', 'instant': 'i', 'rv': 'r'}[j] for j in jobs)}})
        elif r == 'unknown': chk.inconclusive.append({'status': 'solver-unknown', 'error': 'pool capacity bmc'})
    # (i) the connection job never unwinds: skeleton obligations of C04 (transport faults, abstract and real application)
    cases = []
    for entry in ('job', 'process'):
        for app in ('abstract', 'real'):
            for reqs in ('GET /a HTTP/1.1\r\nHost: x\r\n\r\n', 'GET / HTTP/1.1\r\n\r\n', 'BAD\r\n\r\n', 'GET /a HTTP/1.1\r\nRange: bytes=0-0\r\n\r\n', 'POST /form-url-encoded-enctype-post-method HTTP/1.1\r\n\r\na=b'):
                cases.append(dict(ob='skeleton', entry=entry, app=app, request=reqs))
    # the job logs the request before answering: long header values (a log line must not cost the worker)
    for n in (255, 256, 257, 258): cases.append(dict(ob='log', hv_len=n, where='request'))
    chk.run_cases(C04.case, cases, label='connection job (Server::process) under transport/application faults')
    chk.violations = [dict(v, key=v['key'].replace('C04:', 'C06:job-')) for v in chk.violations]
    chk.bounds = {'accept loop connections': bound, 'requests in the job obligation': [c['request'] for c in cases[:5] if 'request' in c], 'pool': 'N=2 (3), one or two panicking tasks'}

    def replay(v):
        w_ = v['witness']
        if w_['kind'] == 'accept':
            st, out = chk.oracle.run([('accept_loop', [])], timeout=30)[0]
            return {'reproduced': st == 'ok' and out and out[0] == b'returned', 'native': (st, [x.decode('latin1') for x in out])}
        if w_['kind'] == 'pool':
            st, out = chk.oracle.run([('pool', [w_['N']] + [H.Raw(c) for c in w_['tasks']])], timeout=30)[0]
            if st != 'ok': return {'reproduced': False, 'native': st}
            return {'reproduced': int(out[0]) < len(w_['tasks']), 'done': int(out[0])}
        if w_['kind'] == 'skeleton' and w_.get('entry') == 'job' and w_.get('expect') != 'hang':
            # the job closure needs a real TcpStream: Server::run with one worker on loopback, hostile peers (reset before / in the
            # middle of a request, immediate close), then a well-formed probe
            st, out = chk.oracle.run([('job_reset', [])], timeout=30)[0]
            return {'reproduced': st == 'ok' and out and out[0] == b'dead', 'native': (st, [x.decode('latin1') for x in out])}
        if w_['kind'] in ('skeleton', 'log-header', 'log'):
            return C04.replay_native(chk, v)
        return {'reproduced': False}
    chk.finish(replay_fn=replay)


if __name__ == '__main__':
    main()
