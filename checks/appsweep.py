"""Symbolic sweep of the request-handling pipeline (App::execute / App::handle_request and the controllers behind them)
with a symbolic request target, the finite symbolic filesystem and pluggable monitors.  Used by C01 C02 C04 C09 C10 C13."""
import re
from common import *
from mirse import envmodels as ENV, lemmas, models as MODELS

ENTRY_EXEC = '<App as Application>::execute'
ENTRY_LEGACY = 'App::handle_request'
ROOT = ENV.ROOT

CORS_ENV_ALLOW_ALL = {b'RWS_CONFIG_CORS_ALLOW_ALL': S('true')}


def target_alphabet(b):
    return z3.And(z3.UGE(b, 0x21), z3.ULE(b, 0x7e))


def conn_info(size=64):
    return Struct('ConnectionInfo', (Struct('Address', (S('127.0.0.1'), Int('i32', 50000))), Struct('Address', (S('127.0.0.1'), Int('i32', 7878))), Int('i64', size)))


def havoc_printable(cap=4):
    def f(ex, st, fn, args):
        cons = []
        v = SymStr.fresh(ex.fresh('hv'), cap, cons, alphabet=printable)
        st.pc.extend(cons)
        return v
    return f


def new_ex(prog, havoc_mime=True, stubs=('filter_string',), **kw):
    ex = Executor(prog, lemmas.with_stubs(MODELS.REGISTRY, list(stubs)), **kw)
    ex.memo_fns = [re.compile(r'^parse_url$'), re.compile(r'URL::parse$|url::<impl[^>]*>::parse$')]
    H._G['last_ex'] = ex
    if havoc_mime:
        ex.havoc_fns = [(re.compile(r'detect_mime_type$'), havoc_printable(4))]
    return ex


# path segments of the traversal grammar (C01/C02/C13): dot segments, names, percent-encoded dots / separators in both
# hex cases, mixed forms, a double-encoded dot
SEGMENT_WORDS = [b'', b'.', b'a', b'..', b'ab', b'%2e', b'%2E', b'%2f', b'%5c', b'.%2e', b'%2e.', b'.%2E', b'%2E.', b'..%2f', b'%2f..', b'..%5c',
                 b'%252e', b'%2e%2e', b'%2E%2E', b'%2e%2E', b'%2E%2e']


def build_state(params, B, concrete=None):
    """params: method, entry, range ('none'|'open'|sym), tlen (exact target length or None)
    returns (state, request, syms)"""
    cons = []; sy = {}
    if concrete is not None:
        target = S(concrete['target'])
    elif params.get('fixed_target'):
        target = S(params['fixed_target'])
    elif params.get('segs') is not None:
        # grammar family: lead + seg ('/' seg)*, every segment any word of SEGMENT_WORDS of the stated length
        target = S(params.get('lead', '/'))
        for i, L in enumerate(params['segs']):
            if i: target = target.concat(S('/'))
            words = [w for w in SEGMENT_WORDS if len(w) == L]
            if L == 0 or not words: continue
            seg = SymStr.fresh('g%d' % i, L, cons, exact_len=L, alphabet=sorted(set(b for w in words for b in w)))
            cons.append(z3.Or(*[zb(seg.eq(S(w))) for w in words]))
            sy['seg%d' % i] = seg
            target = target.concat(seg)
        if params.get('tail'): target = target.concat(S(params['tail']))
    else:
        kw = dict(alphabet=target_alphabet)
        if params.get('alphabet'):
            kw = dict(alphabet=[ord(ch) for ch in params['alphabet']])
        if params.get('tlen') is not None: kw['exact_len'] = params['tlen']
        else: kw['minlen'] = 1
        target = SymStr.fresh('t', max(B['target_cap'], params.get('tlen') or 0), cons, **kw)
        if params.get('first') is not None:
            # case split on the first byte class to spread work over processes
            b0 = target.flat().bs[0]
            cls = params['first']
            if cls == 'slash': cons.append(b0 == 0x2f)
            elif cls == 'other': cons.append(b0 != 0x2f)
        if params.get('second') is not None and len(target.flat().bs) > 1:
            b1 = target.flat().bs[1]; c2 = params['second']
            alnum = z3.Or(z3.And(z3.UGE(b1, 48), z3.ULE(b1, 57)), z3.And(z3.UGE(b1, 65), z3.ULE(b1, 90)), z3.And(z3.UGE(b1, 97), z3.ULE(b1, 122)))
            special = z3.Or(b1 == 0x2e, b1 == 0x2f, b1 == 0x3f, b1 == 0x23)
            if c2 == 'dot': cons.append(b1 == 0x2e)
            elif c2 == 'slash': cons.append(b1 == 0x2f)
            elif c2 == 'qh': cons.append(z3.Or(b1 == 0x3f, b1 == 0x23))
            elif c2 == 'alnum': cons.append(alnum)
            elif c2 == 'other': cons.append(z3.And(z3.Not(alnum), z3.Not(special)))
    sy['target'] = target
    hs = []
    r = params.get('range', 'none')
    if r == 'open': hs.append(header('Range', 'bytes=0-'))
    elif r == 'multi': hs.append(header('Range', 'bytes=0-0,1-1'))
    elif r == 'sym':
        rv = S(concrete['range']) if concrete is not None else SymStr.fresh('rng', B.get('range_cap', 6), cons, alphabet=printable)
        sy['range'] = rv; hs.append(header('Range', rv))
    for (n, v) in params.get('headers', ()): hs.append(header(n, v))
    req = request(params['method'], target, hs, body=params.get('body', b''))
    st = State(); st.pc = list(cons)
    st.world['env'] = dict(CORS_ENV_ALLOW_ALL)
    if concrete is not None and concrete.get('tree') is not None:
        st.world['fs'] = ENV.new_fs(fixed=concrete['tree'])
    else:
        st.world['fs'] = ENV.new_fs(content_cap=B.get('content_cap', 2))
    return st, req, sy


def run_entry(ex, st, req, entry, on_terminal=None):
    if entry == 'execute':
        return ex.run_fn(ENTRY_EXEC, [Struct('App', ()), req, conn_info()], st, on_terminal=on_terminal)
    return ex.run_fn(ENTRY_LEGACY, [req], st, on_terminal=on_terminal)


def response_of(outcome, entry):
    """Response struct from a terminal 'return' outcome"""
    v = outcome[1]
    if entry == 'execute':
        if isinstance(v, Enum) and v.variant == 'Ok': return v.fields[0]
        return None
    return v.items[0]


def resp_fields(r):
    """(http_version, status Int, reason, headers list[(name,value)], content_range_list Vec)"""
    return r.fields[0], r.fields[1], r.fields[2], headers_of(r.fields[3]), r.fields[4]


# ------------------------------------------------------------------ lexical containment (independent oracle for C01)
def escapes_root(path, root=ROOT):
    """z3/python Bool: the path, resolved lexically ('.', '..', empty segments), names something outside `root`.
    Absolute paths must start with root followed by '/' or end; relative paths are taken relative to root."""
    c = path.concrete()
    if c is not None: return escapes_root_concrete(c, root)
    f = path.flat(); n = f.cap
    rl = len(root)
    is_abs = b_and(bv_ult(0, f.ln, LW), bv_eq(f.bs[0] if n else 0, 0x2f, 8))
    pref = path.match_at(0, root)
    after_ok = b_or(bv_eq(f.ln, rl, LW), b_and(bv_ult(rl, f.ln, LW), bv_eq(f.bs[rl] if rl < n else 0, 0x2f, 8)))
    abs_inside_prefix = b_and(pref, after_ok)
    # scan: for absolute paths start after the root prefix, for relative at 0.  depth as 8-bit signed.
    def scan(start):
        depth = 0; seglen = 0; alldots = True; neg = False
        for i in range(start, n + 1):
            at_end = bv_eq(f.ln, i, LW)
            inr = bv_ult(i, f.ln, LW)
            b = f.bs[i] if i < n else 0
            is_sep = b_and(inr, bv_eq(b, 0x2f, 8))
            close = b_or(is_sep, at_end)
            is_dd = b_and(bv_eq(seglen, 2, 8), alldots)
            is_same = b_or(bv_eq(seglen, 0, 8), b_and(bv_eq(seglen, 1, 8), alldots))
            nd = ite_bv(is_dd, bv_sub(depth, 1, 8), ite_bv(is_same, depth, bv_add(depth, 1, 8), 8), 8)
            depth2 = ite_bv(close, nd, depth, 8)
            went_neg = b_and(close, is_dd, bv_eq(depth, 0, 8))
            neg = b_or(neg, went_neg)
            # after going negative clamp at 0 (already flagged)
            depth = ite_bv(went_neg, 0, depth2, 8)
            is_dot = bv_eq(b, 0x2e, 8)
            sl = seglen if (isinstance(seglen, int) and seglen >= 3) else ite_bv(bv_ult(seglen, 3, 8), bv_add(seglen, 1, 8), 3, 8)
            seglen = ite_bv(close, 0, ite_bv(inr, sl, seglen, 8), 8)
            alldots = b_or(close, b_and(alldots, b_or(b_not(inr), is_dot)))
            if i == n: break
        return neg
    neg_abs = scan(rl)
    neg_rel = scan(0)
    return b_or(b_and(is_abs, b_or(b_not(abs_inside_prefix), neg_abs)), b_and(b_not(is_abs), neg_rel))


def escapes_root_concrete(p, root=ROOT):
    import posixpath
    t = p.decode('latin1'); r = root.decode()
    if not t.startswith('/'): t = r + '/' + t
    # lexical resolution that also flags transient escapes (a/../../r/x rises above the root on the way)
    if not (t == r or t.startswith(r + '/')): return True
    depth = 0
    for seg in t[len(r):].split('/'):
        if seg in ('', '.'): continue
        if seg == '..':
            if depth == 0: return True
            depth -= 1
        else: depth += 1
    return False


def fs_accesses(st):
    return list(st.world.get('fslog', ()))


def status_is_error(status):
    """Int status >= 400"""
    return int_binop('Ge', status, Int('i16', 400))
