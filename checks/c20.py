#!/usr/bin/env python3
"""C20 -- library parsers return a value or an error (never panic, never loop).  Engine S.
Each public parsing entry point is executed symbolically on every input of the stated lengths; terminal kinds:
value / error / panic (violation) / unroll bound exceeded (non-termination suspect: replayed natively under a watchdog) /
domain exit (non-ASCII text accepted by from_utf8: outside the claim, reported)."""
from common import *
from mirse import envmodels as ENV, models as MODELS

JSONB = [ord(c) for c in '[]{}",:tfn0-1e.a \n']


def entries(t):
    q = t == 'quick'
    L = (0, 1, 2, 3) if q else (0, 1, 2, 3, 4, 5)
    Lj = (0, 1, 2, 3, 4) if q else (0, 1, 2, 3, 4, 5, 6)
    E = []
    # (name, MIR function, kind of argument, alphabet, lengths, prefix/suffix)
    E.append(('json-array-split', 'RawUnprocessedJSONArray::split_into_vector_of_strings', 'string', JSONB, Lj, b'', b''))
    E.append(('json-array-split-inner', 'RawUnprocessedJSONArray::split_into_vector_of_strings', 'string', JSONB, L, b'[', b']'))
    E.append(('json-array-i64', 'JSONArrayOfIntegers::parse_as_list_i64', 'string', JSONB, L, b'[', b']'))
    E.append(('json-array-string', 'JSONArrayOfStrings::parse_as_list_string', 'string', JSONB, L, b'[', b']'))
    E.append(('json-array-bool', 'JSONArrayOfBooleans::parse_as_list_bool', 'string', JSONB, L, b'[', b']'))
    E.append(('json-object', 'JSON::parse_as_properties', 'string', JSONB, Lj, b'', b''))
    E.append(('json-object-inner', 'JSON::parse_as_properties', 'string', JSONB, L, b'{"a":', b'}'))
    E.append(('json-property', 'JSONProperty::parse', 'string', JSONB, Lj, b'', b''))
    E.append(('base64-decode', 'Base64::decode', 'string', None, L, b'', b''))
    # &str arguments are any valid UTF-8, not only ASCII: multi-byte characters for the parsers that walk `chars()`
    E.append(('base64-decode-utf8', 'Base64::decode', 'utf8', None, (2, 3, 4) if q else (2, 3, 4, 5, 6), b'', b''))
    E.append(('base64-decode-sequence-utf8', 'Base64::decode_sequence', 'utf8', None, (2, 3, 4) if q else (2, 3, 4, 5, 6), b'', b''))
    E.append(('base64-decode-sequence', 'Base64::decode_sequence', 'string', None, L, b'', b''))
    E.append(('base64-char-to-number', 'Base64::convert_base64_char_to_number', 'char', None, (0,), b'', b''))
    E.append(('base64-number-to-char', 'Base64::convert_number_to_base64_char', 'u8', None, (0,), b'', b''))
    # one range spec against a file length (any u64): digits and '-' only, so that the numeric branches are reached
    E.append(('range-spec', 'Range::parse_range_in_content_range', 'range+len', [ord(c) for c in '0123456789- '], (0, 1, 2, 3) if q else (0, 1, 2, 3, 4, 5), b'', b''))
    E.append(('header', 'Header::parse_header', 'string', None, L, b'', b''))
    E.append(('content-disposition', 'ContentDisposition::parse', 'string', None, L, b'', b''))
    E.append(('content-disposition-form', 'ContentDisposition::parse', 'string', None, L, b'form-data; ', b''))
    E.append(('content-disposition-name', 'ContentDisposition::parse', 'string', None, (0, 1, 2), b'form-data; name=', b''))
    E.append(('content-disposition-filename', 'ContentDisposition::parse', 'string', None, (0, 1, 2), b'attachment; filename=', b''))
    E.append(('content-disposition-both', 'ContentDisposition::parse', 'string', None, (0, 1, 2), b'form-data; name="a"; filename=', b''))
    E.append(('content-range-value', 'Range::_parse_raw_content_range_header_value', 'string', None, L, b'', b''))
    E.append(('content-range-value-bytes', 'Range::_parse_raw_content_range_header_value', 'string', [ord(c) for c in '0123456789-/ *b'], L, b'bytes ', b''))
    E.append(('url-path-pattern', 'UrlPath::extract_parts_from_pattern', 'string', [ord(c) for c in '/[]ab '], Lj, b'', b''))
    E.append(('url', 'URL::parse', 'string', None, L, b'', b''))
    E.append(('url-http', 'URL::parse', 'string', None, L, b'http://h', b''))
    E.append(('request', 'Request::parse', 'bytes', None, L, b'', b''))
    E.append(('response', 'Response::parse', 'bytes', None, L, b'', b''))
    E.append(('response-head', 'Response::parse', 'bytes', None, L, b'HTTP/1.1 200 OK\r\n', b'\r\n\r\n'))
    E.append(('response-content-length', 'Response::parse', 'bytes', None, (1, 2) if q else (1, 2, 3), b'HTTP/1.1 200 OK\r\nContent-Length: ', b'\r\n\r\nab'))
    DIG = [ord(ch) for ch in '0123456789']
    E.append(('request-content-length', 'Request::parse', 'bytes', DIG, (1, 19, 20), b'POST / HTTP/1.1\r\nContent-Length: ', b'\r\n\r\nab'))
    E.append(('response-content-length-long', 'Response::parse', 'bytes', DIG, (19, 20), b'HTTP/1.1 200 OK\r\nContent-Length: ', b'\r\n\r\nab'))
    E.append(('multipart-form', 'FormMultipartData::parse', 'bytes+boundary', None, (0, 1, 2) if q else (0, 1, 2, 3), b'', b''))
    E.append(('multipart-byteranges', 'Range::parse_multipart_body', 'cursor', None, (0, 1, 2) if q else (0, 1, 2, 3), b'', b''))
    E.append(('multipart-byteranges-sep', 'Range::parse_multipart_body', 'cursor', None, (0, 1, 2), b'--String_separator\r\n', b''))
    E.append(('form-urlencoded', 'FormUrlEncoded::parse', 'bytes', None, L, b'', b''))
    return E


def case(prog, params):
    name, fn, kind, alpha, n, pre, suf = params['e']
    ex = H.new_executor(prog, max_block_visits=params.get('unroll', 120))
    cons = []
    kw = {'exact_len': n}
    if alpha is not None: kw['alphabet'] = alpha
    elif kind == 'string': kw['ascii_only'] = True
    if kind == 'utf8': kw.pop('ascii_only', None)
    sym = SymStr.fresh('x', n, cons, **kw) if n else SymStr(())
    data = S(pre).concat(sym).concat(S(suf))
    args = [data]
    if kind == 'utf8':
        ex.allow_non_ascii = True
        cons.append(zb(MODELS.utf8_valid(sym.flat())))
    elif kind == 'char':
        cv = z3.BitVec('ch', 32)
        cons.append(z3.And(z3.ULE(cv, 0x10FFFF), z3.Or(z3.ULT(cv, 0xD800), z3.UGT(cv, 0xDFFF))))
        args = [Int('char', cv)]; data = None
    elif kind == 'u8':
        cv = z3.BitVec('nb', 8); args = [Int('u8', cv)]; data = None
    if kind == 'range+len':
        flen = z3.BitVec('flen', 64); args = [Int('u64', flen), data]
    if kind == 'bytes+boundary':
        bd = SymStr.fresh('bd', 2, cons, ascii_only=True); args = [data, bd]
    elif kind == 'cursor':
        args = None
    st = State(); st.pc = list(cons)
    res = {'violations': [], 'inconclusive': [], 'samples': [], 'kinds': {}}
    if kind == 'cursor':
        # fn(cursor: &mut Cursor<&[u8]>, list) : build the cursor in a holder frame via a tiny driver: store it in world and pass a &mut to a synthetic frame
        holder = prog.get(fn)
        if holder is None: raise Unsupported('no MIR for ' + fn)
        st.nfid += 1
        from mirse.engine import Frame
        hf = Frame(holder, st.nfid); hf.locals['_cur'] = MODELS.mk_cursor(data)
        # keep the holder as a passive frame (bb of an empty block) below the callee: we only need it to own the cursor
        st.frames.append(hf)
        args = [MutRef(hf.fid, '_cur', ()), Vec(())]
        ex.new_frame(st, holder, args, None, None, cont=lambda ex_, st_, rv: StopR('done', rv))

    def term(o):
        kk = o.outcome
        if kk[0] == 'stop' and kk[1] == 'done': kk = ('return', kk[2])
        k = outcome_kind(kk) + (':' + kk[1].variant if kk[0] == 'return' and isinstance(kk[1], Enum) else ''); res['kinds'][k] = res['kinds'].get(k, 0) + 1
        if kk[0] == 'panic':
            r, m = ex.check(o.pc)
            if r != 'sat': return
            inp = model_bytes(m, data) if data is not None else (chr(model_int(m, args[0].v)).encode('utf-8') if kind == 'char' else bytes([model_int(m, args[0].v)]))
            w = {'entry': name, 'fn': fn, 'kind': kind, 'input': inp.hex()}
            if kind == 'bytes+boundary': w['boundary'] = model_bytes(m, args[1]).hex()
            if kind == 'range+len': w['boundary'] = str(model_int(m, args[0].v)).encode().hex()
            site = _site(o)
            res['violations'].append({'key': 'C20:panic:%s:%s' % (fn, site), 'text': '%s panics (%s at %s) on %r' % (fn, kk[1], o.outcome[2], inp), 'witness': w})
        elif kk[0] == 'stop' and kk[1] == 'bound:unroll':
            r, m = ex.check(o.pc)
            if r != 'sat': return
            inp = model_bytes(m, data)
            w = {'entry': name, 'fn': fn, 'kind': kind, 'input': inp.hex(), 'expect': 'hang'}
            if kind == 'bytes+boundary': w['boundary'] = model_bytes(m, args[1]).hex()
            res['violations'].append({'key': 'C20:non-termination:%s' % fn, 'text': '%s does not finish within %d iterations of %s on %r' % (fn, params.get('unroll', 120), kk[2], inp), 'witness': w})
        elif kk[0] == 'stop' and not kk[1].startswith('domain:'):
            res['inconclusive'].append({'status': kk[1], 'error': str(kk[2])[:200]})
    if kind == 'cursor':
        ex.explore(st, term)
    else:
        ex.run_fn(fn, args, st, on_terminal=term)
    res.update(H.ex_summary(ex))
    res['samples'].append({'entry': name, 'input_length': n, 'prefix': pre.decode('latin1'), 'kinds': res['kinds']})
    return res


def _site(o):
    import re
    w = o.outcome[2].split(' > ')[-1] if len(o.outcome) > 2 and o.outcome[2] else '?'
    w = re.sub(r'@bb\d+', '', w); w = re.sub(r'<[^>]*>::', '', w)
    return w + ':' + re.sub(r'\d+', 'N', o.outcome[1])[:50]


def main():
    chk = H.Check('C20', 'library parsers report errors instead of panicking')
    prog = chk.load()
    E = entries(chk.tier)
    chk.bounds = {'entry points': [(e[0], e[1], 'lengths %s' % (list(e[4]),), 'prefix %r suffix %r' % (e[5].decode('latin1'), e[6].decode('latin1'))) for e in E], 'unroll bound per block': 120}
    chk.assumptions = ['String arguments are ASCII (valid UTF-8 subset); &[u8] arguments are arbitrary bytes; text accepted by String::from_utf8 that is not ASCII ends the path outside the claim',
                       'floating point parsing (json floats) ends the path outside the claim; stack depth is not decided',
                       'read_config_file is exercised by C12']
    cases = []
    for e in E:
        for n in e[4]:
            cases.append(dict(e=[e[0], e[1], e[2], e[3], n, e[5], e[6]]))
    for c in cases:
        c['e'][5] = c['e'][5]; c['e'][6] = c['e'][6]
    # bytes are not JSON serialisable: keep cases as python objects (the harness falls back to repr)
    results = chk.run_cases(case, cases, label='parser entry points', case_timeout=600 if chk.tier == 'quick' else 2400)

    def replay(v):
        w = v['witness']
        inp = bytes.fromhex(w['input'])
        args = [w['fn'].encode(), inp] + ([bytes.fromhex(w['boundary'])] if 'boundary' in w else [])
        st, out = chk.oracle.run([('parser', args)], timeout=8)[0]
        if w.get('expect') == 'hang': return {'reproduced': st == 'timeout', 'native': st}
        return {'reproduced': st == 'panic', 'native': st, 'msg': out[0].decode('latin1')[:160] if out else ''}
    chk.finish(replay_fn=replay)


if __name__ == '__main__':
    main()
