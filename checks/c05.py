#!/usr/bin/env python3
"""C05 -- responses are well-formed, self-consistent HTTP and delivered in full.  Engine S.
 (a) every response written by Server::process (real App; request shapes as in C10) is read back structurally:
     status line = HTTP/1.1 SP registered-code SP its reason; header lines `name: value`; one blank line;
     Content-Length (when present) = number of body bytes; HEAD/OPTIONS carry no body; no framing header twice.
 (b) client text echoed into the head (Origin, Access-Control-Request-*) can never contain CR or LF.
 (c) the bytes accepted by the transport equal the response length even when it accepts writes in pieces."""
from pipeline import *
import re as _re
import c10 as C10
from mirse.models import parse_int

FRAMING = [b'content-length', b'content-type', b'content-range']


def shapes(t):
    q = t == 'quick'
    out = [dict(kind='target', method=m, tlen=n) for m in ('GET', 'HEAD', 'OPTIONS') for n in (1, 2)]
    for n in range(0, (3 if q else 4) + 1): out.append(dict(kind='range', rlen=n))
    out.append(dict(kind='raw', cap=4 if q else 5))
    out.append(dict(kind='readfail')); out.append(dict(kind='apperr'))
    for hname in ('Origin', 'Access-Control-Request-Headers', 'Access-Control-Request-Method'):
        for m in ('OPTIONS', 'GET'):
            for n in range(0, (3 if q else 4) + 1): out.append(dict(kind='echo', method=m, hname=hname, vlen=n))
    for (m, target, ctype) in (('GET', '/', None), ('GET', '/style.css', None), ('GET', '/form-get-method?a=b', None),
                               ('POST', '/form-url-encoded-enctype-post-method', 'application/x-www-form-urlencoded'), ('POST', '/form-multipart-enctype-post-method', 'multipart/form-data; boundary=b')):
        out.append(dict(kind='fixed', method=m, target=target, ctype=ctype, bcap=2))
    for dp in MULTIPART_DISPOSITION_PREFIXES:
        for ln_ in ((2, 2), (0, 1)): out.append(dict(kind='multipart', disp_prefix=dp, lens=ln_))
    out.append(dict(kind='short-write', entry='process')); out.append(dict(kind='short-write', entry='process_request'))
    return out


def build_request(p, cons):
    if p['kind'] == 'echo':
        v = SymStr.fresh('v', p['vlen'], cons, exact_len=p['vlen']) if p['vlen'] else S('')         # arbitrary bytes, incl. CR / LF / NUL
        head = '%s /a HTTP/1.1\r\n' % p['method']
        pre = 'Origin: http://o\r\n' if p['hname'] != 'Origin' else ''
        return SymStr.join([S(head + pre + p['hname'] + ': '), v, S('\r\n\r\n')]), {'v': v}
    if p['kind'] == 'short-write':
        return S('GET /a HTTP/1.1\r\n\r\n'), {}
    return C10.build_request(p, cons)


def wellformed(ex, o, data, method, res, wit, head_ascii=True):
    st_line, headers, body, problems = split_response(data)
    bad = [('malformed:' + p, True) for p in problems]
    table = load_status_table()
    stl = line_text(st_line)
    m = _re.match(rb'^HTTP/1\.1 (\d{3}) (.*)$', stl)
    if not m or b'\x00SYM\x00' in stl: bad.append(('status-line-malformed:%r' % stl[:40], True))
    else:
        code = int(m.group(1)); reason = m.group(2).decode('latin1')
        if code not in table: bad.append(('status-code-not-registered:%d' % code, True))
        elif table[code] != reason: bad.append(('reason-phrase-mismatch:%d:%s' % (code, reason), True))
    names = {}
    for hl in headers:
        name, val = header_name_value(hl)
        if name is None:
            bad.append(('header-line-without-concrete-name:%r' % line_text(hl)[:40], True)); continue
        if not _re.match(rb'^[!#$%&\'*+\-.^_`|~0-9A-Za-z]+$', name): bad.append(('header-name-not-a-token:%r' % name, True))
        names.setdefault(name.lower(), []).append(val)
        for p in val:
            if p.atom is not None:
                bad.append(('CR-or-LF-inside-header-%s' % name.decode(), has_crlf(p.atom)))
    for f in FRAMING:
        if len(names.get(f, [])) > 1: bad.append(('framing-header-%s-appears-%d-times' % (f.decode(), len(names[f])), True))
    blen = pieces_len(body)
    if method in ('HEAD', 'OPTIONS'):
        # (a request whose head is not valid UTF-8 is answered 400 before its method is known: only parsed requests count)
        bad.append(('body-bytes-in-response-to-%s' % method, b_and(head_ascii, b_not(bv_eq(blen, 0, LW)))))
    elif b'content-length' in names and len(names[b'content-length']) == 1:
        cl = pieces_str(names[b'content-length'][0])
        ok, v = parse_int(cl, 'u64')
        if ok is False: bad.append(('content-length-not-a-number', True))
        else: bad.append(('content-length-differs-from-body-length', b_or(b_not(ok), b_not(bv_eq(v.v, blen, LW)))))
    for label, cond in bad:
        cond = simp_bool(cond) if not isinstance(cond, bool) else cond
        if cond is False: continue
        r, mm = ex.check(o.pc, cond)
        if r == 'unknown': res['inconclusive'].append({'status': 'solver-unknown', 'error': label}); continue
        if r == 'sat': res['violations'].append(wit(mm, label))


def case(prog, params):
    ex = new_ex(prog)
    if params['kind'] == 'multipart': ex.fork_read_until = 6; params = dict(params, method='POST')
    import os
    if os.environ.get('C05_FORK'): ex.fork_read_until = int(os.environ['C05_FORK'])
    cons = []
    reqb, sy = build_request(params, cons)
    res = {'violations': [], 'inconclusive': [], 'samples': [], 'kinds': {}, 'responses': 0}
    stream = {}
    if params['kind'] == 'readfail': stream['read_fail'] = True
    if params['kind'] == 'short-write': stream = {'write_mode': 'arbitrary', 'flush_mode': 'ok'}
    method = params.get('method', 'GET')
    head_ascii = True
    for k_ in ('v', 'raw', 't', 'r'):
        if k_ in sy: head_ascii = b_and(head_ascii, sy[k_].all_bytes(lambda b: bv_ult(b, 0x80, 8)))

    def term(o):
        k = outcome_kind(o.outcome); res['kinds'][k] = res['kinds'].get(k, 0) + 1
        if o.outcome[0] == 'stop' and not o.outcome[1].startswith('domain:'):
            res['inconclusive'].append({'status': o.outcome[1], 'error': str(o.outcome[2])[:200]}); return

        def wit(mm, label):
            wreq = model_bytes(mm, reqb)
            fsd = [(model_bytes(mm, e.path).decode('latin1'), mm.eval(e.kind, model_completion=True).as_long(), model_bytes(mm, e.content).hex()) for e in o.world['fs']['entries']]
            cls = _re.sub(r':.*$', '', label)
            return {'key': 'C05:%s%s' % (cls, (':' + params['hname']) if params['kind'] == 'echo' else ''), 'text': '%s for request %r' % (label, wreq),
                    'witness': {'request': wreq.hex(), 'fs': fsd, 'kind': params['kind'], 'label': label, 'method': method}}
        if params['kind'] == 'short-write':
            io = o.world.get('io', ())
            if any(e[0] == 'write_err' for e in io): return
            for e in io:
                if e[0] != 'write': continue
                data, k_ = e[1], e[2]
                lost = b_not(bv_eq(k_, data.length(), LW))
                # the tail may only be considered lost if no later write re-sends it: count total accepted vs total length
            total_len = 0; total_acc = 0
            writes = [e for e in io if e[0] == 'write']
            if not writes: return
            # one response per connection (C04); the bytes accepted over the connection must be the whole response
            first = writes[0][1]
            acc = 0
            for e in writes: acc = bv_add(acc, e[2], LW)
            lost = b_not(bv_eq(acc, first.length(), LW))
            r, mm = ex.check(o.pc, lost)
            if r == 'sat':
                script = [str(model_int(mm, e[2])) for e in writes]
                res['violations'].append({'key': 'C05:short-write-loses-response-bytes:%s' % params['entry'], 'text': 'transport accepted %s of %d response bytes and the rest was never sent (%s)' % (script, model_int(mm, first.length()), params['entry']),
                                          'witness': {'request': model_bytes(mm, reqb).hex(), 'script': script, 'entry': params['entry'], 'kind': 'short-write', 'length': model_int(mm, first.length())}})
            return
        for data, _ in written_responses(o):
            res['responses'] += 1
            wellformed(ex, o, data, method, res, wit, head_ascii=head_ascii)
    if params['kind'] == 'short-write' and params['entry'] == 'process_request':
        st = State(); st.pc = list(cons)
        st.world['env'] = dict(CORS_ENV_ALLOW_ALL); st.world['env'][b'RWS_CONFIG_REQUEST_ALLOCATION_SIZE_IN_BYTES'] = S(str(reqb.cap))
        st.world['fs'] = ENV.new_fs(content_cap=2); st.world['stream'] = dict({'input': reqb, 'read_fail': False}, **stream); st.world['app_mode'] = 'real'
        ex.run_fn('Server::process_request', [Opaque('Stream'), Opaque('SocketAddr', (Opaque('IpAddr', b'127.0.0.1'), Int('u16', 5)))], st, on_terminal=term)
    else:
        run_process(ex, reqb, cons, term, stream=stream, app_mode='abstract-fail' if params['kind'] == 'apperr' else 'real')
    res.update(H.ex_summary(ex))
    res['samples'].append({'case': params, 'kinds': res['kinds'], 'responses_read_back': res['responses']})
    return res


def main():
    chk = H.Check('C05', 'well-formed, self-consistent, fully delivered responses')
    prog = chk.load()
    lem = lemmas.lemma_filter_string(prog, 5); chk.extra['lemmas'] = [lem]
    if not lem['ok']: chk.inconclusive.append({'status': 'lemma-failed', 'error': str(lem)})
    cases = shapes(chk.tier); chk.bounds = {'request shapes': cases}
    chk.assumptions = ['transport model as in C04 (short-write obligation: each write accepts an arbitrary non-empty prefix); symbolic filesystem; detect_mime_type uninterpreted (its value is a printable string)',
                       'status table read from src/response/mod.rs at run time']
    results = chk.run_cases(case, cases, label='Server::process sweep')
    chk.extra['responses_read_back'] = sum(r.get('responses', 0) for r in results)

    def replay(v):
        w = v['witness']
        if w['kind'] == 'short-write':
            reqb = bytes.fromhex(w['request'])
            cmd = 'process' if w['entry'] == 'process' else 'process_request'
            import tempfile, shutil
            base = tempfile.mkdtemp(prefix='c05_')
            try:
                st, out = chk.oracle.run([(cmd, [reqb, len(reqb)] + [int(x) for x in w['script']])], cwd=base, env={'RWS_CONFIG_CORS_ALLOW_ALL': 'true'})[0]
            finally:
                shutil.rmtree(base, ignore_errors=True)
            if st != 'ok': return {'reproduced': False, 'native': st}
            delivered = len(out[0])
            st2, out2 = chk.oracle.run([(cmd, [reqb, len(reqb)])], env={'RWS_CONFIG_CORS_ALLOW_ALL': 'true'})[0]
            full = len(out2[0]) if st2 == 'ok' else -1
            return {'reproduced': delivered < full, 'delivered': delivered, 'full_response': full}
        st, raw = C10.native_response(chk, w)
        if st != 'ok': return {'reproduced': False, 'native': st}
        head, _, body = raw.partition(b'\r\n\r\n')
        lines = head.split(b'\r\n')
        label = w['label']
        if label.startswith('CR-or-LF-inside-header'):
            return {'reproduced': any((b'\r' in l or b'\n' in l) for l in lines) or any(b': ' not in l for l in lines[1:]), 'native_head': head.decode('latin1')[:300]}
        if label.startswith('content-length'):
            cl = [l.split(b': ', 1)[1] for l in lines[1:] if l.lower().startswith(b'content-length: ')]
            return {'reproduced': bool(cl) and (not cl[0].isdigit() or int(cl[0]) != len(body)), 'content_length': [c.decode('latin1') for c in cl], 'body_len': len(body)}
        if label.startswith('body-bytes'): return {'reproduced': len(body) > 0, 'body_len': len(body)}
        if label.startswith('framing-header'):
            names = [l.split(b': ')[0].lower() for l in lines[1:]]
            return {'reproduced': any(names.count(f) > 1 for f in FRAMING), 'names': [n.decode('latin1') for n in names]}
        return {'reproduced': True, 'native_head': head.decode('latin1')[:300]}
    chk.finish(replay_fn=replay, vacuity=lambda: None if chk.extra['responses_read_back'] else 'no response was read back')


if __name__ == '__main__':
    main()
