#!/usr/bin/env python3
"""C15 -- responses written by the library can be read back by it.  Engine S.
Kernel: Response::generate_response, Response::generate, generate_body, Response::parse -> parse_raw_response_via_cursor,
_parse_http_version_status_code_reason_phrase_string, Range::_parse_content_range_header_value (and the multipart/byteranges
reader in the thorough tier)."""
from common import *
from pipeline import load_status_table


def plan(t):
    q = t == 'quick'
    return dict(codes=[200, 206, 404, 500] if q else None, body_lens=(0, 1, 2) if q else (0, 1, 2, 3, 4, 5), ctype_lens=(1, 2) if q else (1, 2, 3, 4), nheaders=(0, 1), hlens=[(1, 1), (2, 2)] if q else [(1, 1), (2, 2), (3, 3), (4, 4), (1, 6)])


def tokenb(b): return z3.Or(z3.And(z3.UGE(b, 65), z3.ULE(b, 90)), z3.And(z3.UGE(b, 97), z3.ULE(b, 122)))


def valb(b): return z3.Or(z3.And(z3.UGE(b, 0x20), z3.ULE(b, 0x7e)), b == 0x09)      # any printable text incl. blanks at either end, and TAB


def mk_response(params, cons, table):
    code = params['code']
    hs = []; syms = {}
    for i in range(params['nh']):
        nl, vl = params['hlen']
        n = SymStr.fresh('n%d' % i, nl, cons, exact_len=nl, alphabet=tokenb); v = SymStr.fresh('v%d' % i, vl, cons, exact_len=vl, alphabet=valb)
        # a user header must not collide with the framing headers the serialiser adds (names are 1-3 letters here, so it cannot)
        hs.append(header(n, v)); syms['n%d' % i] = n; syms['v%d' % i] = v
    if params.get('parts'):
        # several byte-range parts of a file of `size` bytes: bodies arbitrary bytes of the stated lengths, consecutive offsets
        crs = []; off = 0; size = sum(params['parts']) + 1
        for i, bl in enumerate(params['parts']):
            b = SymStr.fresh('b%d' % i, bl, cons, exact_len=bl) if bl else SymStr(())
            # the multipart boundary line must not occur in the data (premise of the statement)
            syms['b%d' % i] = b
            crs.append(Struct('ContentRange', (S('bytes'), Struct('Range', (Int('u64', off), Int('u64', off + max(bl, 1) - 1))), S(str(size)), b, S('t/%d' % i))))
            off += max(bl, 1)
        syms['b'] = syms['b0']; syms['ct'] = S('t/0')
        resp = Struct('Response', (S('HTTP/1.1'), Int('i16', code), S(table[code]), Vec(hs), Vec(crs)))
        return resp, syms
    bl = params['blen']
    body = SymStr.fresh('b', bl, cons, exact_len=bl) if bl else SymStr(())
    ct = SymStr.fresh('ct', params['ctlen'], cons, exact_len=params['ctlen'], alphabet=valb)
    syms['b'] = body; syms['ct'] = ct
    # one part covering the whole body, labelled the way Range::get_content_range labels it
    cr = Struct('ContentRange', (S('bytes'), Struct('Range', (Int('u64', 0), Int('u64', bl))), S(str(bl)), body, ct))
    resp = Struct('Response', (S('HTTP/1.1'), Int('i16', code), S(table[code]), Vec(hs), Vec([cr])))
    return resp, syms


def case(prog, params):
    table = load_status_table()
    ex = H.new_executor(prog, max_block_visits=200)
    if params.get('parts'): ex.fork_read_until = 6
    cons = []
    res = {'violations': [], 'inconclusive': [], 'samples': [], 'kinds': {}, 'compared': 0}
    if params['ob'] == 'corrupt':
        line = params['line']
        data = S(line + '\r\nContent-Length: 1\r\nContent-Type: t\r\nContent-Range: bytes 0-1/1\r\n\r\nx')
        outs = ex.run_fn('Response::parse', [data], State())
        for o in outs:
            k = outcome_kind(o.outcome) + (':' + o.outcome[1].variant if o.outcome[0] == 'return' else ''); res['kinds'][k] = res['kinds'].get(k, 0) + 1
            if o.outcome[0] == 'panic' or (o.outcome[0] == 'return' and o.outcome[1].variant == 'Ok'):
                res['violations'].append({'key': 'C15:accepts-%s' % params['what'], 'text': 'Response::parse %s for status line %r' % ('panics' if o.outcome[0] == 'panic' else 'returns Ok', line),
                                          'witness': {'ob': 'corrupt', 'line': line}})
        res.update(H.ex_summary(ex)); res['samples'].append({'case': params, 'kinds': res['kinds']})
        return res
    resp, syms = mk_response(params, cons, table)
    st = State(); st.pc = list(cons)
    if params['ser'] == 'generate_response':
        gen = ex.run_fn('Response::generate_response', [resp, request('GET', '/', [])], st)
    else:
        # Response::generate(&mut self): give it a frame-owned value
        from mirse.engine import Frame
        fn = prog.get('Response::generate')
        st.nfid += 1; hf = Frame(fn, st.nfid); hf.locals['_self'] = resp; st.frames.append(hf)
        ex.new_frame(st, fn, [MutRef(hf.fid, '_self', ())], None, None, cont=lambda ex_, st_, rv: StopR('done', rv))
        gen = ex.explore(st)

    def wit(m):
        if params.get('parts'):
            return {'ob': 'rt', 'ser': params['ser'], 'code': params['code'], 'headers': [], 'parts': [model_bytes(m, syms['b%d' % i]).hex() for i in range(len(params['parts']))], 'body': model_bytes(m, syms['b0']).hex(), 'ctype': 't/0'}
        return {'ob': 'rt', 'ser': params['ser'], 'code': params['code'], 'headers': [(model_bytes(m, syms['n%d' % i]).decode('latin1'), model_bytes(m, syms['v%d' % i]).decode('latin1')) for i in range(params['nh'])],
                'body': model_bytes(m, syms['b']).hex(), 'ctype': model_bytes(m, syms['ct']).decode('latin1')}
    for g in gen:
        oc = g.outcome
        if oc[0] == 'stop' and oc[1] == 'done': oc = ('return', oc[2])
        if oc[0] != 'return':
            k = 'serialise:' + outcome_kind(oc); res['kinds'][k] = res['kinds'].get(k, 0) + 1
            if oc[0] == 'panic':
                r, m = ex.check(g.pc)
                if r == 'sat': res['violations'].append({'key': 'C15:serialiser-panics:' + params['ser'], 'text': '%s panics: %s' % (params['ser'], oc[1]), 'witness': wit(m)})
            elif not oc[1].startswith('domain:'): res['inconclusive'].append({'status': oc[1], 'error': str(oc[2])[:200]})
            continue
        raw = oc[1]
        st2 = State(); st2.pc = list(g.pc)
        outs = ex.run_fn('Response::parse', [raw], st2)
        for o in outs:
            k = 'parse:' + outcome_kind(o.outcome) + (':' + o.outcome[1].variant if o.outcome[0] == 'return' else ''); res['kinds'][k] = res['kinds'].get(k, 0) + 1
            if o.outcome[0] == 'panic':
                r, m = ex.check(o.pc)
                if r == 'sat': res['violations'].append({'key': 'C15:parse-panics-on-generated-response:' + params['ser'], 'text': 'Response::parse panics on generated bytes: %s at %s' % (o.outcome[1], o.outcome[2]), 'witness': wit(m)})
                continue
            if o.outcome[0] != 'return':
                if not o.outcome[1].startswith('domain:'): res['inconclusive'].append({'status': o.outcome[1], 'error': str(o.outcome[2])[:200]})
                continue
            v_ = o.outcome[1]
            if v_.variant != 'Ok':
                r, m = ex.check(o.pc)
                if r == 'sat':
                    w = wit(m); res['violations'].append({'key': 'C15:generated-response-rejected:%s%s' % (params['ser'], classify(w)), 'text': 'Response::parse rejects bytes written by %s for %r' % (params['ser'], w), 'witness': w})
                continue
            back = v_.fields[0]; res['compared'] += 1
            ver, status, reason, headers, crl = back.fields
            checks = [('status', b_not(int_binop('Eq', status, Int('i16', params['code'])))), ('reason', b_not(reason.eq(S(table[params['code']]))))]
            ph = headers_of(headers)
            for i in range(params['nh']):
                if i >= len(ph): checks.append(('header-missing', True)); break
                checks.append(('header-name', b_not(ph[i][0].eq(syms['n%d' % i])))); checks.append(('header-value', b_not(ph[i][1].eq(syms['v%d' % i]))))
            if params.get('parts'):
                if len(crl.items) != len(params['parts']): checks.append(('part-count-%d-for-%d' % (len(crl.items), len(params['parts'])), True))
                else:
                    for i, cr_ in enumerate(crl.items):
                        checks.append(('multipart-body', b_not(cr_.fields[3].eq(syms['b%d' % i])))); checks.append(('multipart-content-type', b_not(cr_.fields[4].eq(S('t/%d' % i)))))
            elif len(crl.items) != 1: checks.append(('part-count-%d' % len(crl.items), True))
            else:
                unit, rng, size, body, ctype = crl.items[0].fields
                checks.append(('body', b_not(body.eq(syms['b'])))); checks.append(('content-type', b_not(ctype.eq(syms['ct']))))
                checks.append(('range-start', b_not(int_binop('Eq', rng.fields[0], Int('u64', 0))))); checks.append(('range-end', b_not(int_binop('Eq', rng.fields[1], Int('u64', params['blen'])))))
                checks.append(('size', b_not(size.eq(S(str(params['blen']))))))
            for label, bad in checks:
                bad = simp_bool(bad) if not isinstance(bad, bool) else bad
                if bad is False: continue
                r, m = ex.check(o.pc, bad)
                if r == 'unknown': res['inconclusive'].append({'status': 'solver-unknown', 'error': label}); continue
                if r == 'sat':
                    w = wit(m); res['violations'].append({'key': 'C15:roundtrip-%s:%s%s' % (label, params['ser'], classify(w)), 'text': 'parse(%s(r)) differs in %s for %r' % (params['ser'], label, w), 'witness': w})
    res.update(H.ex_summary(ex)); res['samples'].append({'case': params, 'kinds': res['kinds'], 'compared': res['compared']})
    return res


def classify(w):
    if w.get('parts'):
        return ':multipart' + (':part-body-ends-with-line-break' if any(bytes.fromhex(p).endswith((b'\n', b'\r')) for p in w['parts']) else '')
    b = bytes.fromhex(w['body'])
    if b.endswith(b'\n') or b.endswith(b'\r'): return ':body-ends-with-line-break'
    if len(b) == 0: return ':empty-body'
    return ''


def main():
    chk = H.Check('C15', 'responses written by the library can be read back')
    prog = chk.load(deps=())
    table = load_status_table()
    P = plan(chk.tier); codes = P['codes'] or sorted(table)
    chk.bounds = dict(P, codes=codes, parts='one part covering the body (multipart: thorough tier of C20 exercises the reader)')
    chk.assumptions = ['header names are ASCII letters, values printable without blanks; content types printable without blanks; bodies arbitrary bytes',
                       'status table read from src/response/mod.rs at run time']
    cases = []
    for ser in ('generate_response', 'generate'):
        for code in codes:
            cases.append(dict(ob='rt', ser=ser, code=code, nh=0, hlen=(1, 1), blen=1, ctlen=1))
        for bl in P['body_lens']:
            for cl in P['ctype_lens']:
                for hl in P['hlens']:
                    cases.append(dict(ob='rt', ser=ser, code=200, nh=1, hlen=hl, blen=bl, ctlen=cl))
    for ser in ('generate_response', 'generate'):
        for parts in ([(1, 1), (2, 1), (1, 2), (2, 2), (0, 1), (1, 0), (3, 2), (1, 1, 1)] if chk.tier == 'quick' else [(1, 1), (2, 1), (1, 2), (2, 2), (0, 1), (1, 0), (3, 1), (1, 3), (3, 3), (1, 1, 1), (2, 1, 2), (4, 2), (5, 1), (4, 4), (2, 2, 2)]):
            cases.append(dict(ob='rt', ser=ser, code=206, nh=0, hlen=(1, 1), parts=list(parts)))
    cases += [dict(ob='corrupt', what='unknown-status-code', line='HTTP/1.1 299 OK'), dict(ob='corrupt', what='mismatched-reason-phrase', line='HTTP/1.1 200 Not Found'),
              dict(ob='corrupt', what='unsupported-version', line='HTTP/9.9 200 OK'), dict(ob='corrupt', what='missing-reason', line='HTTP/1.1 200')]
    results = chk.run_cases(case, cases, label='serialise -> parse', case_timeout=600)
    chk.extra['results_compared'] = sum(r.get('compared', 0) for r in results)

    def replay(v):
        w = v['witness']
        if w['ob'] == 'corrupt':
            raw = (w['line'] + '\r\nContent-Length: 1\r\nContent-Type: t\r\nContent-Range: bytes 0-1/1\r\n\r\nx').encode()
            st, out = chk.oracle.run([('parser', [b'Response::parse', raw])])[0]
            return {'reproduced': st == 'panic' or (st == 'ok' and out[0] == b'true'), 'native': (st, [x.decode() for x in out])}
        if w.get('parts'):
            st, out = chk.oracle.run([('response_multipart_roundtrip', [w['ser'].encode()] + [bytes.fromhex(p) for p in w['parts']])])[0]
            if st != 'ok': return {'reproduced': True, 'native': st, 'msg': out[0].decode('latin1')[:200] if out else ''}
            return {'reproduced': [x.hex() for x in out] != w['parts'], 'native_parts': [x.hex() for x in out]}
        args = [w['ser'].encode(), w['code'], w['ctype'].encode('latin1'), bytes.fromhex(w['body']), len(w['headers'])] + [x.encode('latin1') for h in w['headers'] for x in h]
        st, out = chk.oracle.run([('response_roundtrip', args)])[0]
        if st != 'ok': return {'reproduced': True, 'native': st, 'msg': out[0].decode('latin1')[:200] if out else ''}
        got = {'code': int(out[0]), 'reason': out[1].decode('latin1'), 'ctype': out[2].decode('latin1'), 'body': out[3].hex(), 'range': out[4].decode(), 'headers': [(out[i].decode('latin1'), out[i + 1].decode('latin1')) for i in range(5, len(out), 2)]}
        exp_hdrs = [tuple(h) for h in w['headers']]
        same = got['code'] == w['code'] and got['ctype'] == w['ctype'] and got['body'] == w['body'] and got['headers'][:len(exp_hdrs)] == exp_hdrs and got['range'] == '0-%d/%d' % (len(w['body']) // 2, len(w['body']) // 2)
        return {'reproduced': not same, 'native': got}
    chk.finish(replay_fn=replay, vacuity=lambda: None if chk.extra['results_compared'] else 'no generated response was parsed back')


if __name__ == '__main__':
    main()
