#!/usr/bin/env python3
"""C01 -- no request target makes the server read a file outside the served directory.  Engine S.
Kernel: App::execute / App::handle_request -> StaticResourceController (+ the other controllers), Range::get_content_range_list,
Range::parse_content_range, URL::parse -> url_build_parse::parse_url, file_ext (get_static_filepath, read_file_partially, ...).
Monitor: every path handed to a filesystem primitive, on every feasible path, must be lexically inside the root."""
import tempfile, shutil
from appsweep import *


def bounds(t):
    if t == 'quick': return dict(target_cap=4, content_cap=2, methods=['GET'], entries=['execute', 'legacy'], ranges=['none'], first=['slash'],
                                 grammar=dict(methods=['GET'], ranges=['none'], leads=['/', ''], nsegs=[1, 2, 3], tails=['']))
    return dict(target_cap=4, content_cap=2, methods=['GET', 'HEAD'], entries=['execute', 'legacy'], ranges=['none', 'open'], first=['slash', 'other'], other_cap=3, long_only_get=True,
                grammar=dict(methods=['GET'], ranges=['none', 'open'], leads=['/', '', '//h/', 'http://h/'], nsegs=[1, 2, 3], tails=['', '/', '?a']))


def case(prog, params):
    B = bounds(H.tier())
    ex = new_ex(prog); ex.lossy_mode = 'stop'   # targets are ASCII (stated); text that only arises from invalid UTF-8 is outside the claim
    st, req, sy = build_state(params, B)
    res = {'violations': [], 'inconclusive': [], 'samples': [], 'kinds': {}, 'reads': 0, 'accesses': 0}
    target = sy['target']

    def term(o):
        k = outcome_kind(o.outcome); res['kinds'][k] = res['kinds'].get(k, 0) + 1
        if o.outcome[0] == 'stop' and not o.outcome[1].startswith(('fs-mutation', 'domain:invalid-utf8-lossy')):
            res['inconclusive'].append({'status': o.outcome[1], 'error': str(o.outcome[2])[:300]})
        log = fs_accesses(o)
        seen = set()
        for op, path in log:
            res['accesses'] += 1
            if op == 'read': res['reads'] += 1
            key = (op, ENV.skey(path))
            if key in seen: continue
            seen.add(key)
            bad = escapes_root(path)
            if bad is False: continue
            # refinement loop: the lazily created filesystem does not know that every ancestor of the root is a directory, so a
            # "content read" of the root's parent itself (/r/.., /r/../.) is a spurious model; such path values are blocked and
            # the solver is asked again (bounded), instead of reporting a witness that no tree can realise
            blocked = []
            for _round in range(12):
                r, m = ex.check(o.pc, b_and(bad, *blocked) if blocked else bad)
                if r == 'unknown': res['inconclusive'].append({'status': 'solver-unknown', 'error': 'containment query'}); break
                if r != 'sat': break
                t = model_bytes(m, target); p = model_bytes(m, path)
                if op == 'read' and is_ancestor_of_root(p.decode('latin1')):
                    blocked.append(b_not(path.eq(S(p)))); res['spurious_blocked'] = res.get('spurious_blocked', 0) + 1
                    continue
                res['violations'].append({'key': 'C01:%s-outside-root:%s' % ('content-read' if op == 'read' else 'probe', params['entry']),
                                          'text': '%s of %r (outside the served root) for target %r via %s' % (op, p.decode('latin1'), t.decode('latin1'), params['entry']),
                                          'op': op, 'witness': {'params': params, 'target': t.decode('latin1'), 'path': p.decode('latin1')}})
                break
            else:
                res['inconclusive'].append({'status': 'refinement-bound', 'error': 'more than 12 ancestor-directory models for one read'})
    run_entry(ex, st, req, params['entry'], on_terminal=term)
    res.update(H.ex_summary(ex))
    if params.get('sample'): res['samples'].append({'case': params, 'kinds': res['kinds'], 'fs_accesses_checked': res['accesses']})
    return res


def is_ancestor_of_root(p, root=ROOT):
    """the path names the root itself or one of its ancestors (necessarily a directory in any tree)"""
    import posixpath
    if isinstance(root, bytes): root = root.decode('latin1')
    n = posixpath.normpath(p)
    if n.startswith('//'): n = n[1:]
    return n == '/' or root == n or root.startswith(n.rstrip('/') + '/')


def replay_native(oracle, w):
    """real Server::process / process_request in a temp tree with a marked secret at the place the witness path names"""
    p = w['params']; target = w['target']; path = w['path']
    base = tempfile.mkdtemp(prefix='c01_')
    try:
        root = os.path.join(base, 'l1', 'l2', 'root'); os.makedirs(root)
        import posixpath
        rel = path[len('/r'):] if path.startswith('/r') else '/' + path
        real = posixpath.normpath(root + rel)
        marker = 'SECRET-%s' % os.urandom(4).hex()
        for lvl in (base, os.path.join(base, 'l1'), os.path.join(base, 'l1', 'l2')):
            open(os.path.join(lvl, 'secret.txt'), 'w').write(marker + '-level')
        if not real.startswith(base): return {'reproduced': False, 'detail': 'witness path leaves the sandbox tree: ' + real}
        if not os.path.exists(real):
            os.makedirs(os.path.dirname(real), exist_ok=True)
            open(real, 'w').write(marker)
        else:
            if os.path.isfile(real): marker = open(real).read()
        open(os.path.join(root, 'inside.txt'), 'w').write('inside')
        reqb = ('%s %s HTTP/1.1\r\nHost: localhost\r\n' % (p['method'], target)).encode('latin1')
        if p.get('range') == 'open': reqb += b'Range: bytes=0-\r\n'
        reqb += b'\r\n'
        cmd = 'process' if p['entry'] == 'execute' else 'process_request'
        st, out = oracle.run([(cmd, [reqb, len(reqb)])], cwd=root, env={'RWS_CONFIG_CORS_ALLOW_ALL': 'true'})[0]
        body = out[0] if out else b''
        leaked = marker.encode() in body
        return {'reproduced': bool(leaked), 'native_status': st, 'response_head': body[:60].decode('latin1'), 'secret_at': real, 'request': reqb.decode('latin1')}
    finally:
        shutil.rmtree(base, ignore_errors=True)


def main():
    chk = H.Check('C01', 'requests cannot read files outside the served directory')
    prog = chk.load()
    B = bounds(chk.tier); chk.bounds = dict(B, target_alphabet='0x21-0x7e', root='/r (model) / temp tree (replay)', segment_words=[w.decode() for w in SEGMENT_WORDS])
    lem = lemmas.lemma_filter_string(prog, 5 if chk.tier == 'quick' else 6)
    chk.extra['lemmas'] = [lem]
    if not lem['ok']: chk.inconclusive.append({'status': 'lemma-failed', 'error': str(lem)})
    chk.assumptions = ['filesystem = lazily created symbolic entries (kind in absent/file/dir, content <= %d bytes), same path string => same entry; symlinks absent' % B['content_cap'],
                       'MimeType::detect_mime_type replaced by an uninterpreted function (its result cannot influence which path is read); panic-freedom of it is C04/C02',
                       'FilterString::is_valid_input_string replaced by its spec after the equivalence lemma passed in this run (lemma_filter_string)',
                       'ASCII targets 0x21-0x7e of the stated length; CORS switch = allow-all']
    cases = []
    for entry in B['entries']:
        for m in B['methods']:
            for rg in B['ranges']:
                for n in range(1, B['target_cap'] + 1):
                    for first in B['first']:
                        if first == 'other' and n > B.get('other_cap', 99): continue
                        if B.get('long_only_get') and n >= B['target_cap'] and (m != 'GET' or rg != 'none'): continue
                        cases.append(dict(entry=entry, method=m, range=rg, tlen=n, first=first))
    # grammar family (the statement's quantifier): lead + segments drawn from SEGMENT_WORDS (dot segments, names, encoded dots and
    # separators in both hex cases, mixed and double-encoded forms), one case per tuple of segment lengths
    import itertools
    G = B['grammar']
    for entry in B['entries']:
        for m in G['methods']:
            for rg in G['ranges']:
                for lead in G['leads']:
                    for nseg in G['nsegs']:
                        if nseg >= 3 and (m != 'GET' or rg != 'none' or (chk.tier == 'quick' and lead != '/')): continue
                        for lens in itertools.product(range(0, 7), repeat=nseg):
                            for tail in (G['tails'] if nseg < 3 else ['']):
                                cases.append(dict(entry=entry, method=m, range=rg, segs=list(lens), lead=lead, tail=tail))
    for c in cases[::7]: c['sample'] = True
    results = chk.run_cases(case, cases, label='request sweep')
    reads = sum(r.get('reads', 0) for r in results)
    chk.extra['fs_accesses_checked'] = sum(r.get('accesses', 0) for r in results); chk.extra['content_reads_seen'] = reads
    # only content reads are violations of the statement; metadata/open probes outside the root are reported as notes
    probes = [v for v in chk.violations if v.get('op') != 'read']
    chk.violations = [v for v in chk.violations if v.get('op') == 'read']
    if probes: chk.notes.append('%d existence probes (metadata/open) outside the root, e.g. %s' % (len(probes), probes[0]['text']))

    def vacuity():
        return None if reads > 0 else 'no explored path ever read file content'
    chk.finish(replay_fn=lambda v: replay_native(chk.oracle, v['witness']), vacuity=vacuity)


if __name__ == '__main__':
    main()
