#!/usr/bin/env python3
"""C18 -- Base64 conforms to RFC 4648 and round-trips.  Engine S (MIR symbolic execution + z3).
Kernel: Base64::encode, encode_sequence, decode, decode_sequence, convert_number_to_base64_char,
convert_base64_char_to_number, get_base64_char_list.  Reference: RFC 4648 table and grouping written below."""
from common import *
from mirse import models as MODELS

ALPHA = b'ABCDEFGHIJKLMNOPQRSTUVWXYZabcdefghijklmnopqrstuvwxyz0123456789+/'


def rfc_char(v6):
    """z3: base64 character (bv8) of a 6-bit value given as bv8"""
    return z3.If(z3.ULT(v6, 26), v6 + 65, z3.If(z3.ULT(v6, 52), v6 + 71, z3.If(z3.ULT(v6, 62), v6 - 4, z3.If(v6 == 62, z3.BitVecVal(43, 8), z3.BitVecVal(47, 8)))))


def rfc_encode(bs):
    """reference encoder over a list of bv8 / ints -> list of bv8"""
    bs = [bvval(b, 8) if isinstance(b, int) else b for b in bs]
    out = []
    for i in range(0, len(bs), 3):
        g = bs[i:i + 3]
        b0 = g[0]; b1 = g[1] if len(g) > 1 else bvval(0, 8); b2 = g[2] if len(g) > 2 else bvval(0, 8)
        s0 = z3.LShR(b0, 2); s1 = ((b0 & 3) << 4) | z3.LShR(b1, 4); s2 = ((b1 & 15) << 2) | z3.LShR(b2, 6); s3 = b2 & 63
        out += [rfc_char(s0), rfc_char(s1)]
        out.append(rfc_char(s2) if len(g) > 1 else bvval(61, 8))
        out.append(rfc_char(s3) if len(g) > 2 else bvval(61, 8))
    return out


def in_alphabet(b):
    return z3.Or(z3.And(z3.UGE(b, 65), z3.ULE(b, 90)), z3.And(z3.UGE(b, 97), z3.ULE(b, 122)), z3.And(z3.UGE(b, 48), z3.ULE(b, 57)), b == 43, b == 47)


import re as _re18
MERGE = [_re18.compile(r'convert_base64_char_to_number$')]   # pure char->number helper: summarised into one if-then-else value per call


def case_roundtrip(prog, params):
    n = params['n']
    ex = H.new_executor(prog, max_block_visits=300); ex.merge_fns = MERGE
    cons = []
    data = SymStr.fresh('d', n, cons, exact_len=n) if n else SymStr(())
    st = State(); st.pc = list(cons)
    res = {'violations': [], 'inconclusive': [], 'samples': [], 'kinds': {}}
    outs = ex.run_fn('Base64::encode', [data], st)
    ref = rfc_encode(list(data.flat().bs))
    for o in outs:
        k = outcome_kind(o.outcome); res['kinds']['encode:' + k] = res['kinds'].get('encode:' + k, 0) + 1
        if o.outcome[0] != 'return':
            if o.outcome[0] == 'panic':
                r, m = ex.check(o.pc)
                res['violations'].append({'key': 'C18:encode-panics', 'text': 'Base64::encode panics: %s' % (o.outcome[1],), 'witness': {'op': 'encode', 'data': model_bytes(m, data).hex() if m else None}})
            else: res['inconclusive'].append({'status': o.outcome[1], 'error': str(o.outcome[2])[:200]})
            continue
        v = o.outcome[1]
        if v.variant != 'Ok':
            r, m = ex.check(o.pc)
            res['violations'].append({'key': 'C18:encode-returns-err', 'text': 'Base64::encode returns Err for %d bytes' % n, 'witness': {'op': 'encode', 'data': model_bytes(m, data).hex() if m else None}})
            continue
        text = v.fields[0]
        f = text.flat()
        # (a) exactly the RFC 4648 text
        diff = b_or(b_not(bv_eq(f.ln, len(ref), LW)), *[b_not(bv_eq(f.bs[i] if i < f.cap else 0, ref[i], 8)) for i in range(len(ref))])
        r, m = ex.check(o.pc, diff)
        if r == 'unknown': res['inconclusive'].append({'status': 'solver-unknown', 'error': 'encode == rfc'})
        if r == 'sat':
            d = model_bytes(m, data)
            res['violations'].append({'key': 'C18:encode-differs-from-rfc4648', 'text': 'encode(%s) = %r differs from RFC 4648' % (d.hex(), model_bytes(m, text)),
                                      'witness': {'op': 'encode', 'data': d.hex()}})
            continue
        # (b) decode(encode(d)) == d : continue from this state with the produced text
        st2 = State(); st2.pc = list(o.pc)
        outs2 = ex.run_fn('Base64::decode', [text], st2)
        for o2 in outs2:
            k = outcome_kind(o2.outcome); res['kinds']['decode:' + k] = res['kinds'].get('decode:' + k, 0) + 1
            if o2.outcome[0] == 'panic':
                r, m = ex.check(o2.pc)
                res['violations'].append({'key': 'C18:decode-panics', 'text': 'decode(encode(d)) panics: %s' % (o2.outcome[1],), 'witness': {'op': 'roundtrip', 'data': model_bytes(m, data).hex() if m else None}})
                continue
            if o2.outcome[0] != 'return':
                res['inconclusive'].append({'status': o2.outcome[1], 'error': str(o2.outcome[2])[:200]}); continue
            v2 = o2.outcome[1]
            if v2.variant != 'Ok':
                r, m = ex.check(o2.pc)
                if r == 'sat':
                    res['violations'].append({'key': 'C18:roundtrip-decode-err', 'text': 'decode(encode(d)) returns Err', 'witness': {'op': 'roundtrip', 'data': model_bytes(m, data).hex()}})
                continue
            back = v2.fields[0]
            neq = b_not(back.eq(data))
            r, m = ex.check(o2.pc, neq)
            if r == 'unknown': res['inconclusive'].append({'status': 'solver-unknown', 'error': 'roundtrip'})
            if r == 'sat':
                d = model_bytes(m, data)
                res['violations'].append({'key': 'C18:roundtrip-differs', 'text': 'decode(encode(%s)) = %s' % (d.hex(), model_bytes(m, back).hex()), 'witness': {'op': 'roundtrip', 'data': d.hex()}})
    res.update(H.ex_summary(ex))
    res['samples'].append({'obligation': 'encode == RFC 4648 and decode(encode(d)) == d for every d of %d bytes' % n, 'paths': len(outs), 'kinds': res['kinds']})
    return res


def case_reject(prog, params):
    """decode(text) must be Err whenever text contains a character outside alphabet + '='.
    params: nbytes (byte length of the UTF-8 text), wide: allow one 2-byte UTF-8 character at position `at`"""
    ex = H.new_executor(prog, max_block_visits=300); ex.allow_non_ascii = True; ex.merge_fns = MERGE
    n = params['nbytes']; at = params.get('at')
    cons = []
    text = SymStr.fresh('t', n, cons, exact_len=n)
    bs = text.flat().bs
    bad_char = []
    i = 0
    while i < n:
        if at is not None and i == at:
            # a 2-byte UTF-8 sequence: U+0080..U+07FF -- always outside the alphabet
            cons += [z3.UGE(bs[i], 0xC2), z3.ULE(bs[i], 0xDF), z3.UGE(bs[i + 1], 0x80), z3.ULE(bs[i + 1], 0xBF)]
            bad_char.append(z3.BoolVal(True)); i += 2
        else:
            cons.append(z3.ULT(bs[i], 0x80))
            bad_char.append(z3.And(z3.Not(in_alphabet(bs[i])), bs[i] != 61)); i += 1
    has_bad = z3.Or(bad_char)
    st = State(); st.pc = list(cons) + [has_bad]
    res = {'violations': [], 'inconclusive': [], 'samples': [], 'kinds': {}}
    outs = ex.run_fn('Base64::decode', [text], st)
    for o in outs:
        k = outcome_kind(o.outcome); res['kinds'][k] = res['kinds'].get(k, 0) + 1
        if o.outcome[0] == 'panic':
            r, m = ex.check(o.pc)
            res['violations'].append({'key': 'C18:decode-panics-on-invalid-text', 'text': 'Base64::decode panics (%s)' % (o.outcome[1],), 'witness': {'op': 'decode', 'text': model_bytes(m, text).hex() if m else None}})
        elif o.outcome[0] != 'return':
            res['inconclusive'].append({'status': o.outcome[1], 'error': str(o.outcome[2])[:200]})
        elif o.outcome[1].variant == 'Ok':
            r, m = ex.check(o.pc)
            if r == 'sat':
                t = model_bytes(m, text)
                res['violations'].append({'key': 'C18:decode-accepts-non-alphabet-%s' % ('non-ascii' if at is not None else 'ascii'),
                                          'text': 'Base64::decode(%r) returns Ok although a character is outside the alphabet' % (t.decode('utf-8', 'replace'),),
                                          'witness': {'op': 'decode', 'text': t.hex()}})
    res.update(H.ex_summary(ex))
    res['samples'].append({'obligation': 'decode rejects every %d-byte text with a non-alphabet character%s' % (n, '' if at is None else ' (2-byte UTF-8 char at byte %d)' % at), 'paths': len(outs), 'kinds': res['kinds']})
    return res


def case(prog, params):
    return case_roundtrip(prog, params) if params['kind'] == 'rt' else case_reject(prog, params)


def main():
    chk = H.Check('C18', 'Base64 conforms to RFC 4648 and round-trips')
    prog = chk.load(deps=())
    quick = chk.tier == 'quick'
    nmax = 4 if quick else 18
    cases = [dict(kind='rt', n=n) for n in range(0, nmax + 1)]
    for nb in ((4,) if quick else (4, 8, 12, 16)):
        cases.append(dict(kind='rej', nbytes=nb))
    for nb, at in (((5, 3), (5, 0)) if quick else ((5, 0), (5, 1), (5, 2), (5, 3), (9, 7), (9, 4))):
        cases.append(dict(kind='rej', nbytes=nb, at=at))
    if not quick: cases += [dict(kind='rej', nbytes=nb) for nb in (1, 2, 3, 5)]
    chk.bounds = {'encode/roundtrip input lengths': list(range(0, nmax + 1)), 'byte values': 'all 256 per byte', 'rejection texts': [c for c in cases if c['kind'] == 'rej'],
                  'outside': 'longer inputs (group independence is not proved), 3- and 4-byte UTF-8 characters, padding in wrong positions'}
    chk.assumptions = ['std models: Vec/HashMap<char,u8> lookups as if-then-else chains, chars().nth/count UTF-8 aware up to 2-byte sequences, String::from_utf8 exact validity circuit',
                       'format!("{:b}") of a symbolic byte yields an opaque string (the results are unused locals in this code)']
    chk.run_cases(case, cases, label='base64')
    # differential: interpreter vs native on seeded concrete inputs (and the repo test literals)
    ex = H.new_executor(prog, max_block_visits=300)
    lits = [b'', b'M', b'Ma', b'Man', b'Many hands make light work.', b'\x00\xff\x10', bytes(range(250, 256))]
    rng = chk.rng
    for i in range(20): lits.append(bytes(rng.randrange(256) for _ in range(rng.randrange(0, 9))))
    import base64 as pyb64
    for d in lits:
        outs = ex.run_fn('Base64::encode', [SymStr.const(d)], State())
        mine = outs[0].outcome[1].fields[0].concrete() if len(outs) == 1 and outs[0].outcome[0] == 'return' and outs[0].outcome[1].variant == 'Ok' else None
        stn, out = chk.oracle.run([('b64_encode', [d])])[0]
        native = out[0] if stn == 'ok' and out else (b'' if stn == 'ok' else None)
        chk.diff_cases += 1
        if mine != native or native != pyb64.b64encode(d):
            chk.inconclusive.append({'status': 'differential-mismatch', 'error': 'encode %r: interpreter %r native %r python %r' % (d, mine, native, pyb64.b64encode(d))})

    def replay(v):
        w = v['witness']
        if w['op'] in ('encode', 'roundtrip'):
            d = bytes.fromhex(w['data'])
            stn, out = chk.oracle.run([('b64_encode', [d])])[0]
            if stn == 'panic': return {'reproduced': True, 'native': 'panic'}
            enc = out[0] if out else b''
            if w['op'] == 'encode': return {'reproduced': stn != 'ok' or enc != pyb64.b64encode(d), 'native': enc.decode('latin1'), 'expected': pyb64.b64encode(d).decode()}
            stn2, out2 = chk.oracle.run([('b64_decode', [enc])])[0]
            return {'reproduced': stn2 != 'ok' or (out2[0] if out2 else b'') != d, 'native': (stn2, [x.hex() for x in out2])}
        t = bytes.fromhex(w['text'])
        stn, out = chk.oracle.run([('b64_decode', [t])])[0]
        return {'reproduced': stn in ('ok', 'panic'), 'native': (stn, [x.hex() for x in out])}
    chk.finish(replay_fn=replay)


if __name__ == '__main__':
    main()
