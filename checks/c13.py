#!/usr/bin/env python3
"""C13 -- the server never modifies the files it serves.  Engine S.
Monitor over the request pipeline (App::execute and App::handle_request, all controllers, Range / file_ext helpers; and
Server::process itself on raw / failing input):
no feasible path reaches a file-mutating primitive (File::create, OpenOptions, fs::{write,remove_*,rename,create_dir*,copy,
set_permissions}, unix symlink and file_ext's writers, which end in those).  These primitives deliberately have no model:
reaching one is a terminal state whose path condition is the witness."""
import tempfile, shutil, hashlib
from appsweep import *

FIXED = ['/', '/index.html', '/style.css', '/script.js', '/favicon.svg', '/form-get-method?a=b', '/form-url-encoded-enctype-post-method',
         '/form-multipart-enctype-post-method', '/file-upload/initiate', '/404.html']


def plan(t):
    q = t == 'quick'
    return dict(methods=['GET', 'POST', 'PUT', 'DELETE'] if q else METHODS, tlens=(1, 2) if q else (1, 2, 3), range_cap=3 if q else 4, body_cap=2 if q else 4,
                entries=['execute', 'legacy'])


def case_pipeline(prog, params):
    """the connection pipeline itself (Server::process: read, parse, error answers, logging) under the same mutation monitor:
    raw requests of arbitrary bytes (incl. invalid UTF-8), read failure, failing application"""
    import pipeline as PL, c10 as C10
    ex = PL.new_ex(prog)
    cons = []
    reqb, sy = C10.build_request(params['shape'], cons)
    res = {'violations': [], 'inconclusive': [], 'samples': [], 'kinds': {}, 'fs_ops': 0}
    kind = params['shape']['kind']

    def term(o):
        k = 'pipeline:' + outcome_kind(o.outcome); res['kinds'][k] = res['kinds'].get(k, 0) + 1
        res['fs_ops'] += len(o.world.get('fslog', ()))
        if o.outcome[0] == 'stop' and o.outcome[1] == 'fs-mutation':
            r, m = ex.check(o.pc)
            if r != 'sat': return
            prim = str(o.outcome[2]).split(' reached')[0]
            res['violations'].append({'key': 'C13:mutation:%s:pipeline-%s' % (prim, kind), 'text': 'file-mutating primitive reached in Server::process: %s for request %r' % (o.outcome[2], model_bytes(m, reqb)),
                                      'witness': {'pipeline': True, 'request': model_bytes(m, reqb).hex(), 'what': str(o.outcome[2])[:200]}})
        elif o.outcome[0] == 'stop' and not o.outcome[1].startswith('domain:') and o.outcome[1] != 'shared-state':
            res['inconclusive'].append({'status': o.outcome[1], 'error': str(o.outcome[2])[:200]})
    PL.run_process(ex, reqb, cons, term, stream={'read_fail': True} if kind == 'readfail' else None, app_mode='abstract-fail' if kind == 'apperr' else 'real')
    res.update(H.ex_summary(ex))
    res['samples'].append({'case': params, 'kinds': res['kinds']})
    return res


def case(prog, params):
    if params.get('ob') == 'pipeline': return case_pipeline(prog, params)
    P = plan(H.tier())
    ex = new_ex(prog)
    B = dict(target_cap=params.get('tlen') or 1, content_cap=2, range_cap=P['range_cap'])
    hs = []
    if params.get('ctype'): hs.append(('Content-Type', params['ctype']))
    st, req, sy = build_state(dict(params, headers=hs), B)
    cons = []
    body = SymStr.fresh('body', P['body_cap'], cons); st.pc.extend(cons); sy['body'] = body
    req = Struct('Request', req.fields[:4] + (body,))
    res = {'violations': [], 'inconclusive': [], 'samples': [], 'kinds': {}, 'fs_ops': 0}

    def term(o):
        k = outcome_kind(o.outcome); res['kinds'][k] = res['kinds'].get(k, 0) + 1
        res['fs_ops'] += len(o.world.get('fslog', ()))
        if o.outcome[0] == 'stop' and o.outcome[1] == 'fs-mutation':
            r, m = ex.check(o.pc)
            if r != 'sat': return
            t = model_bytes(m, sy['target'])
            w = {'params': params, 'target': t.decode('latin1'), 'body': model_bytes(m, body).hex(), 'what': str(o.outcome[2])[:200]}
            if 'range' in sy: w['range'] = model_bytes(m, sy['range']).decode('latin1')
            w['fs'] = [(model_bytes(m, e.path).decode('latin1'), m.eval(e.kind, model_completion=True).as_long(), model_bytes(m, e.content).hex()) for e in o.world['fs']['entries']]
            prim = str(o.outcome[2]).split(' reached')[0]
            res['violations'].append({'key': 'C13:mutation:%s:%s' % (prim, params.get('fixed_target') or 'static'), 'text': 'file-mutating primitive reached: %s for %s %r' % (o.outcome[2], params['method'], t), 'witness': w})
        elif o.outcome[0] == 'stop' and not o.outcome[1].startswith('domain:'):
            res['inconclusive'].append({'status': o.outcome[1], 'error': str(o.outcome[2])[:200]})
    run_entry(ex, st, req, params['entry'], on_terminal=term)
    res.update(H.ex_summary(ex))
    if params.get('sample'): res['samples'].append({'case': params, 'kinds': res['kinds'], 'fs_operations_seen': res['fs_ops']})
    return res


def manifest(root):
    out = {}
    for d, dirs, files in os.walk(root):
        for n in dirs: out[os.path.relpath(os.path.join(d, n), root) + '/'] = 'dir'
        for n in files:
            p = os.path.join(d, n)
            out[os.path.relpath(p, root)] = ('link:' + os.readlink(p)) if os.path.islink(p) else hashlib.sha1(open(p, 'rb').read()).hexdigest()
    return out


def replay_native(chk, w):
    import posixpath
    if w.get('pipeline'):
        base = tempfile.mkdtemp(prefix='c13_')
        try:
            root = os.path.join(base, 'root'); os.makedirs(root)
            open(os.path.join(root, 'index.html'), 'w').write('x')
            before = manifest(base)
            reqb = bytes.fromhex(w['request'])
            st, out = chk.oracle.run([('process', [reqb, max(len(reqb), 1)])], cwd=root, env={'RWS_CONFIG_CORS_ALLOW_ALL': 'true'})[0]
            after = manifest(base)
            changed = sorted(set(k for k in set(before) | set(after) if before.get(k) != after.get(k)))
            return {'reproduced': bool(changed), 'changed_entries': changed[:10], 'native': st}
        finally:
            shutil.rmtree(base, ignore_errors=True)
    p = w['params']
    base = tempfile.mkdtemp(prefix='c13_')
    try:
        root = os.path.join(base, 'root'); os.makedirs(root)
        open(os.path.join(base, 'sentinel.txt'), 'w').write('sentinel')
        for path, kind, content in w.get('fs', []):
            rel = path[len('/r'):] if path.startswith('/r') else '/' + path
            real = posixpath.normpath(root + rel)
            if not real.startswith(root): continue
            try:
                if kind == 2: os.makedirs(real, exist_ok=True)
                elif kind == 1:
                    os.makedirs(os.path.dirname(real), exist_ok=True)
                    if not os.path.isdir(real): open(real, 'wb').write(bytes.fromhex(content))
            except OSError: pass
        before = manifest(base)
        reqb = ('%s %s HTTP/1.1\r\n' % (p['method'], w['target'])).encode('latin1')
        if p.get('ctype'): reqb += ('Content-Type: %s\r\n' % p['ctype']).encode()
        if 'range' in w: reqb += ('Range: %s\r\n' % w['range']).encode('latin1')
        elif p.get('range') == 'open': reqb += b'Range: bytes=0-\r\n'
        reqb += b'\r\n' + bytes.fromhex(w['body'])
        cmd = 'process' if p['entry'] == 'execute' else 'process_request'
        st, out = chk.oracle.run([(cmd, [reqb, len(reqb)])], cwd=root, env={'RWS_CONFIG_CORS_ALLOW_ALL': 'true'})[0]
        after = manifest(base)
        changed = sorted(set(k for k in set(before) | set(after) if before.get(k) != after.get(k)))
        return {'reproduced': bool(changed), 'changed_entries': changed[:10], 'native': st, 'request': reqb.decode('latin1')}
    finally:
        shutil.rmtree(base, ignore_errors=True)


def main():
    chk = H.Check('C13', 'the server never modifies files')
    prog = chk.load()
    P = plan(chk.tier); chk.bounds = dict(P, fixed_targets=FIXED)
    lem = lemmas.lemma_filter_string(prog, 5); chk.extra['lemmas'] = [lem]
    if not lem['ok']: chk.inconclusive.append({'status': 'lemma-failed', 'error': str(lem)})
    chk.assumptions = ['file-mutating primitives are recognised by name (std::fs writers, File::create, OpenOptions::*, unix symlink); a new mutating callee without MIR/model fails the check as "unsupported", never silently',
                       'symbolic filesystem (every kind assignment of every probed path), symbolic body, Range header absent / open / symbolic']
    cases = []
    for entry in P['entries']:
        for m in P['methods']:
            for n in P['tlens']:
                for rg in ('none', 'sym'):
                    cases.append(dict(entry=entry, method=m, tlen=n, first='slash', range=rg))
            for ft in FIXED:
                for rg in ('none', 'open', 'sym'):
                    ctype = 'application/x-www-form-urlencoded' if 'url-encoded' in ft else ('multipart/form-data; boundary=b' if 'multipart' in ft else None)
                    cases.append(dict(entry=entry, method=m, fixed_target=ft, tlen=len(ft), first=None, range=rg, ctype=ctype))
    for c in cases[::11]: c['sample'] = True
    # Server::process itself: raw requests (arbitrary bytes), read failure, failing application
    for shp in (dict(kind='raw', cap=4 if chk.tier == 'quick' else 5), dict(kind='readfail'), dict(kind='apperr')):
        cases.append(dict(ob='pipeline', shape=shp))
    results = chk.run_cases(case, cases, label='request sweep (mutation monitor)')
    chk.extra['fs_operations_seen'] = sum(r.get('fs_ops', 0) for r in results)
    chk.finish(replay_fn=lambda v: replay_native(chk, v['witness']), vacuity=lambda: None if chk.extra['fs_operations_seen'] else 'no filesystem operation was ever reached')


if __name__ == '__main__':
    main()
