#!/usr/bin/env python3
"""C17 -- form and query decoding returns the submitted fields.  Engine S.
Kernel (dependency url-search-params 12.0.0, executed from its MIR): encode_uri_component, decode_uri_component,
build_url_search_params, parse_url_search_params; rws: URL::build_query / parse_query, FormUrlEncoded::parse.
str::replace(&str, &str) is a bit-vector circuit (leftmost, non-overlapping), so the 23-step replace chains are exact."""
from common import *


def plan(t):
    q = t == 'quick'
    # full printable alphabet for short strings; longer strings over small alphabets built around the reserved characters
    # (the 23/22-step replace chains fold away for patterns whose bytes are not in the alphabet)
    return dict(comp_lens=(1, 2), pair_lens=[(1, 1)],
                small=[('%256a', 3), ('&=%3D2', 3), ('+ %2B0', 3)] if q else [('%256a', 3), ('%256a', 4), ('&=%3D26', 3), ('+ %2B0', 3), ('?#/%3F2', 3)],
                small_pairs=[] if q else [('%2a', (2, 1))])


def case(prog, params):
    if params['ob'] == 'endpoint': return case_endpoint(prog, params)
    ex = H.new_executor(prog, max_block_visits=200, solver_timeout_ms=(600000 if H.tier() == 'quick' else 1500000))
    cons = []
    res = {'violations': [], 'inconclusive': [], 'samples': [], 'kinds': {}, 'compared': 0}
    ob = params['ob']
    if ob == 'component':
        s = SymStr.fresh('s', params['n'], cons, exact_len=params['n'], alphabet=([ord(ch) for ch in params['alphabet']] if params.get('alphabet') else printable))
        ex.str_cap = 3 * params['n'] + 1      # an n-byte component encodes to at most 3n bytes; longer results are a terminal 'bound:strcap'
        st = State(); st.pc = list(cons)
        outs = ex.run_fn('encode_uri_component', [s], st)
        for o in outs:
            if o.outcome[0] != 'return':
                _term(ex, o, res, 'encode', lambda m: {'ob': ob, 's': model_bytes(m, s).decode('latin1')}); continue
            enc = o.outcome[1]
            st2 = State(); st2.pc = list(o.pc)
            outs2 = ex.run_fn('decode_uri_component', [enc], st2)
            for o2 in outs2:
                if o2.outcome[0] != 'return':
                    _term(ex, o2, res, 'decode', lambda m: {'ob': ob, 's': model_bytes(m, s).decode('latin1')}); continue
                back = o2.outcome[1]; res['compared'] += 1
                r, m = ex.check(o2.pc, b_not(back.eq(s)))
                if r == 'unknown': res['inconclusive'].append({'status': 'solver-unknown', 'error': 'component'})
                if r == 'sat':
                    sv = model_bytes(m, s).decode('latin1')
                    res['violations'].append({'key': 'C17:decode-encode-differs' + classify(sv), 'text': 'decode(encode(%r)) = %r (encoded %r)' % (sv, model_bytes(m, back).decode('latin1'), model_bytes(m, enc).decode('latin1')),
                                              'witness': {'ob': ob, 's': sv}})
    else:
        kl, vl = params['lens']
        ex.str_cap = 3 * (kl + vl) + 2
        al = [ord(ch) for ch in params['alphabet']] if params.get('alphabet') else printable
        k = SymStr.fresh('k', kl, cons, exact_len=kl, alphabet=al); v = SymStr.fresh('v', vl, cons, exact_len=vl, alphabet=al)
        hm = Opaque('HashMap', ((k, v),))
        st = State(); st.pc = list(cons)
        outs = ex.run_fn('build_url_search_params', [hm], st)
        for o in outs:
            if o.outcome[0] != 'return':
                _term(ex, o, res, 'build', lambda m: {'ob': ob, 'k': model_bytes(m, k).decode('latin1'), 'v': model_bytes(m, v).decode('latin1')}); continue
            qs = o.outcome[1]
            st2 = State(); st2.pc = list(o.pc)
            if ob == 'query': outs2 = ex.run_fn('parse_url_search_params', [qs], st2)
            elif ob == 'target':
                rq = request('GET', S('/form-get-method?').concat(qs), [])
                outs2 = ex.run_fn('Request::get_uri_query', [rq], st2)
            else: outs2 = ex.run_fn('FormUrlEncoded::parse', [qs], st2)
            for o2 in outs2:
                def w(m): return {'ob': ob, 'k': model_bytes(m, k).decode('latin1'), 'v': model_bytes(m, v).decode('latin1')}
                if o2.outcome[0] != 'return':
                    _term(ex, o2, res, 'parse', w); continue
                got = o2.outcome[1]
                if ob == 'target':
                    if got.variant != 'Ok' or got.fields[0].variant != 'Some':
                        r, m = ex.check(o2.pc)
                        if r == 'sat': res['violations'].append({'key': 'C17:target-query-lost' + classify(w(m)['k'] + '\x00' + w(m)['v']), 'text': 'Request::get_uri_query returns %s for %r' % (got.variant, w(m)), 'witness': w(m)})
                        continue
                    got = got.fields[0].fields[0]
                if ob == 'form':
                    if got.variant != 'Ok':
                        r, m = ex.check(o2.pc)
                        if r == 'sat': res['violations'].append({'key': 'C17:form-body-rejected', 'text': 'FormUrlEncoded::parse rejects the generated body for %r' % (w(m),), 'witness': w(m)})
                        continue
                    got = got.fields[0]
                items = got.data; res['compared'] += 1
                if len(items) != 1:
                    bad = True
                else:
                    bad = b_or(b_not(items[0][0].eq(k)), b_not(items[0][1].eq(v)))
                r, m = ex.check(o2.pc, bad)
                if r == 'unknown': res['inconclusive'].append({'status': 'solver-unknown', 'error': ob})
                if r == 'sat':
                    ww = w(m)
                    gotc = [(model_bytes(m, a).decode('latin1'), model_bytes(m, b).decode('latin1')) for a, b in items]
                    res['violations'].append({'key': 'C17:%s-roundtrip-differs%s' % (ob, classify(ww['k'] + '\x00' + ww['v'])), 'text': '%s: parse(build({%r: %r})) = %r' % (ob, ww['k'], ww['v'], gotc), 'witness': ww})
    res.update(H.ex_summary(ex))
    res['samples'].append({'case': params, 'kinds': res['kinds'], 'compared': res['compared']})
    return res


def case_endpoint(prog, params):
    """the echo endpoints behind the whole connection pipeline (Server::process): a submitted field K=V must come back as
    "K is V" in a 200 response, for a request that exactly fills the request buffer (pad=0) and for one that leaves room (pad>0)"""
    import pipeline as PL
    ex = PL.new_ex(prog)
    cons = []
    lo = lambda b: z3.And(z3.UGE(b, 97), z3.ULE(b, 122))
    k = SymStr.fresh('k', 1, cons, exact_len=1, alphabet=lo); v = SymStr.fresh('v', params['vlen'], cons, exact_len=params['vlen'], alphabet=lo)
    if params['method'] == 'GET':
        reqb = SymStr.join([S('GET /form-get-method?'), k, S('='), v, S(' HTTP/1.1\r\n\r\n')], S(''))
    else:
        reqb = SymStr.join([S('POST /form-url-encoded-enctype-post-method HTTP/1.1\r\nContent-Type: application/x-www-form-urlencoded\r\n\r\n'), k, S('='), v], S(''))
    expect = SymStr.join([k, S(' is '), v], S(''))
    res = {'violations': [], 'inconclusive': [], 'samples': [], 'kinds': {}, 'compared': 0}

    def w(m): return {'ob': 'endpoint', 'method': params['method'], 'pad': params['pad'], 'request': model_bytes(m, reqb).hex(), 'k': model_bytes(m, k).decode('latin1'), 'v': model_bytes(m, v).decode('latin1')}

    def term(o):
        kk = 'endpoint:' + outcome_kind(o.outcome); res['kinds'][kk] = res['kinds'].get(kk, 0) + 1
        if o.outcome[0] != 'return':
            _term(ex, o, res, 'endpoint', w); return
        ws = PL.written_responses(o)
        if not ws:
            r, m = ex.check(o.pc)
            if r == 'sat': res['violations'].append({'key': 'C17:endpoint-%s-no-response' % params['method'], 'text': 'no response written', 'witness': w(m)})
            return
        data = ws[0][0]; res['compared'] += 1
        bad = b_or(b_not(data.starts_with(S('HTTP/1.1 200 '))), b_not(data.contains(expect)))
        r, m = ex.check(o.pc, bad)
        if r == 'unknown': res['inconclusive'].append({'status': 'solver-unknown', 'error': 'endpoint'})
        if r == 'sat':
            res['violations'].append({'key': 'C17:endpoint-%s-fields-not-echoed:%s' % (params['method'], 'request-fills-buffer-exactly' if params['pad'] == 0 else 'buffer-larger-than-request'),
                                      'text': 'echo endpoint does not return the submitted field: %r -> %r' % (bytes.fromhex(w(m)['request']), model_bytes(m, data)[:60]), 'witness': w(m)})
    PL.run_process(ex, reqb, cons, term, size=reqb.cap + params['pad'])
    res.update(H.ex_summary(ex))
    res['samples'].append({'case': params, 'kinds': res['kinds'], 'compared': res['compared']})
    return res


def _term(ex, o, res, where, wit):
    k = where + ':' + outcome_kind(o.outcome); res['kinds'][k] = res['kinds'].get(k, 0) + 1
    if o.outcome[0] == 'panic':
        r, m = ex.check(o.pc)
        if r == 'sat': res['violations'].append({'key': 'C17:%s-panics' % where, 'text': '%s panics: %s' % (where, o.outcome[1]), 'witness': wit(m)})
    elif o.outcome[0] == 'stop' and not o.outcome[1].startswith('domain:'):
        res['inconclusive'].append({'status': o.outcome[1], 'error': str(o.outcome[2])[:200]})


def classify(s):
    """role: which reserved character is involved"""
    import re
    if '?' in s: return ':contains-question-mark'
    if re.search(r'%(2[0-9A-F]|3[A-F]|40|5[BD]|0[AD])', s): return ':literal-percent-followed-by-a-decodable-hex-pair'
    for ch, name in (('%', 'percent'), ('+', 'plus'), (' ', 'space'), ('&', 'ampersand'), ('=', 'equals')):
        if ch in s: return ':contains-' + name
    return ':other'


def main():
    chk = H.Check('C17', 'form and query decoding returns the submitted fields')
    prog = chk.load()
    P = plan(chk.tier); chk.bounds = dict(P, alphabet='printable ASCII 0x20-0x7e for the short cases; the listed small alphabets for the longer ones')
    chk.assumptions = ['non-empty names and values of the stated concrete lengths, printable ASCII; one field per map (HashMap iteration order is irrelevant then)',
                       'non-ASCII text is outside the claim; the echo endpoints of the server are covered by C04/C05 sweeps, not here']
    cases = [dict(ob='component', n=n) for n in P['comp_lens']]
    for lens in P['pair_lens']:
        cases.append(dict(ob='query', lens=lens)); cases.append(dict(ob='form', lens=lens)); cases.append(dict(ob='target', lens=lens))
    for al, n in P['small']: cases.append(dict(ob='component', n=n, alphabet=al))
    for al, lens in P['small_pairs']:
        cases.append(dict(ob='query', lens=lens, alphabet=al)); cases.append(dict(ob='form', lens=lens, alphabet=al))
    for al, lens in [('?a#/', (1, 2)), ('?a#/', (2, 1))]:
        cases.append(dict(ob='target', lens=lens, alphabet=al))
    # the echo endpoints behind Server::process, request exactly filling the buffer / leaving room
    for method in ('GET', 'POST'):
        for pad in (0, 1) if chk.tier == 'quick' else (0, 1, 7):
            for vlen in (1,) if chk.tier == 'quick' else (1, 2):
                cases.append(dict(ob='endpoint', method=method, pad=pad, vlen=vlen))
    results = chk.run_cases(case, cases, label='encode/build -> decode/parse', case_timeout=1200 if chk.tier == 'quick' else 3000)
    chk.extra['results_compared'] = sum(r.get('compared', 0) for r in results)

    def replay(v):
        w = v['witness']
        if w['ob'] == 'endpoint':
            reqb = bytes.fromhex(w['request'])
            st, out = chk.oracle.run([('process_seq', [len(reqb) + w['pad'], reqb])], env={'RWS_CONFIG_CORS_ALLOW_ALL': 'true'})[0]
            raw = out[-1] if out else b''
            ok = st == 'ok' and raw.startswith(b'HTTP/1.1 200 ') and ('%s is %s' % (w['k'], w['v'])).encode('latin1') in raw
            return {'reproduced': not ok, 'native_status': st, 'native_head': raw[:40].decode('latin1')}
        if w['ob'] == 'component':
            st, out = chk.oracle.run([('uri_roundtrip', [w['s'].encode('latin1')])])[0]
            return {'reproduced': st != 'ok' or out[1].decode('latin1') != w['s'], 'native': (st, [x.decode('latin1') for x in out])}
        st, out = chk.oracle.run([('query_roundtrip', [w['ob'].encode(), w['k'].encode('latin1'), w['v'].encode('latin1')])])[0]
        if w['ob'] == 'target' and st == 'err': return {'reproduced': True, 'native': st}
        if st != 'ok': return {'reproduced': True, 'native': st}
        got = [(out[i].decode('latin1'), out[i + 1].decode('latin1')) for i in range(1, len(out), 2)]
        return {'reproduced': got != [(w['k'], w['v'])], 'native_query': out[0].decode('latin1'), 'native_fields': got}
    chk.finish(replay_fn=replay, vacuity=lambda: None if chk.extra['results_compared'] else 'nothing was compared')


if __name__ == '__main__':
    main()
