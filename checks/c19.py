#!/usr/bin/env python3
"""C19 -- JSON serialisation round-trips (integer / bool / null / string fragment).  Engine S.
Kernel: JSON::to_json_string -> JSON::parse_as_properties -> JSONProperty::parse, i.e. the functions every ToJSON/FromJSON
implementation is built from.  Floating-point fields are outside the claim (format!("{:.13}") / str::parse::<f64> are
flt2dec/dec2flt; treating floats as reals would be wrong).  Typed arrays: element texts go through the same scanner
(RawUnprocessedJSONArray::split_into_vector_of_strings), whose panic-freedom is C20."""
from common import *


def jvalue(**kw):
    order = ['f64', 'i128', 'string', 'object', 'array', 'bool', 'null']
    return Struct('JSONValue', tuple(Some(kw[k]) if k in kw else NONE for k in order))


def jprop(name, ty): return Struct('JSONProperty', (S(name) if isinstance(name, str) else name, S(ty)))


def str_byte(b): return z3.And(z3.UGE(b, 0x20), z3.ULE(b, 0x7e), b != 0x22, b != 0x5c)


def case(prog, params):
    if params['kind'].startswith('arr-'): return case_array(prog, params)
    ex = H.new_executor(prog, max_block_visits=400); ex.dec_digits = 5
    cons = []; sy = {}
    props = []
    kind = params['kind']
    if kind == 'i128':
        v = z3.BitVec('iv', 128)
        lim = 10 ** 4
        cons.append(z3.And(v > -lim, v < lim)) if params['sign'] == 'any' else cons.append(z3.And(v >= 0, v < lim))
        sy['int'] = v
        props.append(Tup((jprop('k', 'i128'), jvalue(i128=Int('i128', v)))))
    elif kind == 'i128-const':
        props.append(Tup((jprop('k', 'i128'), jvalue(i128=Int('i128', params['value'])))))
    elif kind == 'bool':
        b = z3.Bool('bv'); sy['bool'] = b
        props.append(Tup((jprop('k', 'bool'), jvalue(bool=b))))
    elif kind == 'string':
        s = SymStr.fresh('sv', params['n'], cons, exact_len=params['n'], alphabet=str_byte) if params['n'] else S('')
        sy['str'] = s
        props.append(Tup((jprop('k', 'String'), jvalue(string=s))))
    elif kind == 'two':
        s = SymStr.fresh('sv', 1, cons, exact_len=1, alphabet=str_byte); v = z3.BitVec('iv', 128); cons.append(z3.And(v >= 0, v < 100))
        sy['str'] = s; sy['int'] = v
        props.append(Tup((jprop('a', 'String'), jvalue(string=s)))); props.append(Tup((jprop('b', 'i128'), jvalue(i128=Int('i128', v)))))
    st = State(); st.pc = list(cons)
    res = {'violations': [], 'inconclusive': [], 'samples': [], 'kinds': {}, 'compared': 0}

    def wit(m):
        w = {'kind': kind, 'params': params}
        if 'int' in sy:
            iv = m.eval(sy['int'], model_completion=True).as_long(); w['int'] = iv - (1 << 128) if iv >> 127 else iv
        if 'bool' in sy: w['bool'] = z3.is_true(m.eval(sy['bool'], model_completion=True))
        if 'str' in sy: w['str'] = model_bytes(m, sy['str']).decode('latin1')
        if kind == 'i128-const': w['int'] = params['value']
        return w
    gen = ex.run_fn('JSON::to_json_string', [Vec(props)], st)
    for g in gen:
        if g.outcome[0] != 'return':
            k = 'to_json:' + outcome_kind(g.outcome); res['kinds'][k] = res['kinds'].get(k, 0) + 1
            if g.outcome[0] == 'panic':
                r, m = ex.check(g.pc)
                if r == 'sat': res['violations'].append({'key': 'C19:to_json_string-panics', 'text': 'to_json_string panics: %s' % g.outcome[1], 'witness': wit(m)})
            elif not g.outcome[1].startswith(('domain:', 'bound:itoa')): res['inconclusive'].append({'status': g.outcome[1], 'error': str(g.outcome[2])[:200]})
            continue
        text = g.outcome[1]
        st2 = State(); st2.pc = list(g.pc)
        outs = ex.run_fn('JSON::parse_as_properties', [text], st2)
        for o in outs:
            k = 'parse:' + outcome_kind(o.outcome) + (':' + o.outcome[1].variant if o.outcome[0] == 'return' else ''); res['kinds'][k] = res['kinds'].get(k, 0) + 1
            if o.outcome[0] == 'panic':
                r, m = ex.check(o.pc)
                if r == 'sat':
                    w = wit(m); res['violations'].append({'key': 'C19:parse-panics%s' % classify(w), 'text': 'parse_as_properties panics on generated text: %s (%r)' % (o.outcome[1], model_bytes(m, text)), 'witness': w})
                continue
            if o.outcome[0] != 'return':
                if o.outcome[1] == 'domain:float' and kind.startswith('i128'):
                    # the text of an integer field is handed to the float parser (outside the encoded domain): the value cannot come
                    # back as the integer it was -- candidate violation, decided by the native replay
                    r, m = ex.check(o.pc)
                    if r == 'sat':
                        w = wit(m); res['violations'].append({'key': 'C19:integer-handed-to-float-parser%s' % classify(w), 'text': 'integer field %r: its text %r is parsed as a float' % (w.get('int'), model_bytes(m, text)), 'witness': w})
                elif not o.outcome[1].startswith(('domain:', 'bound:itoa')): res['inconclusive'].append({'status': o.outcome[1], 'error': str(o.outcome[2])[:200]})
                continue
            v_ = o.outcome[1]
            if v_.variant != 'Ok':
                r, m = ex.check(o.pc)
                if r == 'sat':
                    w = wit(m); res['violations'].append({'key': 'C19:generated-json-rejected%s' % classify(w), 'text': 'parse_as_properties rejects %r' % (model_bytes(m, text),), 'witness': w})
                continue
            got = v_.fields[0].items; res['compared'] += 1
            checks = []
            if len(got) != len(props): checks.append(('property-count-%d' % len(got), True))
            else:
                for (gp, gv), orig in zip([(t.items[0], t.items[1]) for t in got], props):
                    op, ov = orig.items
                    checks.append(('name', b_not(gp.fields[0].eq(op.fields[0])))); checks.append(('type', b_not(gp.fields[1].eq(op.fields[1]))))
                    for i, (a, b) in enumerate(zip(gv.fields, ov.fields)):
                        if b.variant == 'None':
                            continue
                        if a.variant != 'Some': checks.append(('value-missing', True)); continue
                        x, y = a.fields[0], b.fields[0]
                        if isinstance(y, SymStr): checks.append(('value', b_not(x.eq(y))))
                        elif isinstance(y, Int): checks.append(('value', b_not(int_binop('Eq', x, y))))
                        else: checks.append(('value', b_not(b_eq(x, y))))
            for label, bad in checks:
                bad = simp_bool(bad) if not isinstance(bad, bool) else bad
                if bad is False: continue
                r, m = ex.check(o.pc, bad)
                if r == 'unknown': res['inconclusive'].append({'status': 'solver-unknown', 'error': label}); continue
                if r == 'sat':
                    w = wit(m); res['violations'].append({'key': 'C19:roundtrip-%s%s' % (label, classify(w)), 'text': 'parse(to_json(v)) differs in %s for %r (text %r)' % (label, w, model_bytes(m, text)), 'witness': w})
    res.update(H.ex_summary(ex)); res['samples'].append({'case': params, 'kinds': res['kinds'], 'compared': res['compared']})
    return res


def case_array(prog, params):
    """homogeneous arrays: to_json_from_list_* -> parse_as_list_*"""
    ex = H.new_executor(prog, max_block_visits=400); ex.dec_digits = 4
    cons = []; kind = params['kind']; n = params['n']
    items = []; syms = []
    if kind == 'arr-int':
        ty = params['ty']; w = {'i8': 8, 'i16': 16, 'i32': 32, 'i64': 64, 'i128': 128, 'u8': 8, 'u16': 16, 'u32': 32, 'u64': 64, 'u128': 128}[ty]
        for i in range(n):
            v = z3.BitVec('e%d' % i, w)
            lim = min(100, (1 << (w - 1)) - 1 if ty[0] == 'i' else (1 << w) - 1)
            cons.append(z3.And(v >= -lim, v <= lim) if ty[0] == 'i' else z3.ULE(v, lim))
            items.append(Int(ty, v)); syms.append(v)
        fn_to = 'JSONArrayOfIntegers::to_json_from_list_' + ty; fn_from = 'JSONArrayOfIntegers::parse_as_list_' + ty
    elif kind == 'arr-bool':
        for i in range(n):
            b = z3.Bool('e%d' % i); items.append(b); syms.append(b)
        fn_to = 'JSONArrayOfBooleans::to_json_from_list_bool'; fn_from = 'JSONArrayOfBooleans::parse_as_list_bool'
    else:
        for i in range(n):
            L = params['slen']
            s = SymStr.fresh('e%d' % i, L, cons, exact_len=L, alphabet=str_byte) if L else S('')
            items.append(s); syms.append(s)
        fn_to = 'JSONArrayOfStrings::to_json_from_list_string'; fn_from = 'JSONArrayOfStrings::parse_as_list_string'
    st = State(); st.pc = list(cons)
    res = {'violations': [], 'inconclusive': [], 'samples': [], 'kinds': {}, 'compared': 0}

    def wit(m):
        vals = []
        for s_ in syms:
            if isinstance(s_, SymStr): vals.append(model_bytes(m, s_).decode('latin1'))
            elif z3.is_bool(s_): vals.append(z3.is_true(m.eval(s_, model_completion=True)))
            else:
                x = m.eval(s_, model_completion=True).as_long(); wd = s_.size()
                vals.append(x - (1 << wd) if (kind == 'arr-int' and params['ty'][0] == 'i' and x >> (wd - 1)) else x)
        return {'kind': kind, 'params': params, 'items': vals}

    def cls(w):
        if kind == 'arr-int' and any(isinstance(x, int) and x < 0 for x in w['items']):
            return ':negative-element' + (':last' if w['items'][-1] < 0 else '')
        if kind == 'arr-string' and any(x == '' for x in w['items']): return ':empty-string-element'
        return ''
    for g in ex.run_fn(fn_to, [Vec(items)], st):
        if g.outcome[0] != 'return' or g.outcome[1].variant != 'Ok':
            k = 'to_json:' + outcome_kind(g.outcome); res['kinds'][k] = res['kinds'].get(k, 0) + 1
            if g.outcome[0] == 'stop':
                if not g.outcome[1].startswith(('domain:', 'bound:itoa')): res['inconclusive'].append({'status': g.outcome[1], 'error': str(g.outcome[2])[:200]})
                continue
            r, m = ex.check(g.pc)
            if r == 'sat':
                w = wit(m); res['violations'].append({'key': 'C19:array-to-json-fails%s' % cls(w), 'text': '%s fails or panics: %r for %r' % (fn_to, g.outcome[:2], w['items']), 'witness': w})
            continue
        text = g.outcome[1].fields[0]
        st2 = State(); st2.pc = list(g.pc)
        for o in ex.run_fn(fn_from, [text], st2):
            k = 'parse:' + outcome_kind(o.outcome) + (':' + o.outcome[1].variant if o.outcome[0] == 'return' else ''); res['kinds'][k] = res['kinds'].get(k, 0) + 1
            if o.outcome[0] == 'stop':
                if not o.outcome[1].startswith(('domain:', 'bound:itoa')): res['inconclusive'].append({'status': o.outcome[1], 'error': str(o.outcome[2])[:200]})
                continue
            if o.outcome[0] == 'panic' or o.outcome[1].variant != 'Ok':
                r, m = ex.check(o.pc)
                if r == 'sat':
                    w = wit(m); res['violations'].append({'key': 'C19:array-%s%s' % ('parse-panics' if o.outcome[0] == 'panic' else 'text-rejected', cls(w)), 'text': '%s %s on %r (items %r)' % (fn_from, 'panics' if o.outcome[0] == 'panic' else 'rejects', model_bytes(m, text), w['items']), 'witness': w})
                continue
            got = o.outcome[1].fields[0].items; res['compared'] += 1
            checks = []
            if len(got) != len(items): checks.append(('length-%d-for-%d' % (len(got), len(items)), True))
            else:
                for a, b in zip(got, items):
                    if isinstance(b, SymStr): checks.append(('element', b_not(a.eq(b))))
                    elif isinstance(b, Int): checks.append(('element', b_not(int_binop('Eq', a, b))))
                    else: checks.append(('element', b_not(b_eq(a, b))))
            for label, bad in checks:
                bad = simp_bool(bad) if not isinstance(bad, bool) else bad
                if bad is False: continue
                r, m = ex.check(o.pc, bad)
                if r == 'unknown': res['inconclusive'].append({'status': 'solver-unknown', 'error': label}); continue
                if r == 'sat':
                    w = wit(m); res['violations'].append({'key': 'C19:array-roundtrip-%s%s' % (label, cls(w)), 'text': 'array round trip differs (%s) for %r (text %r)' % (label, w['items'], model_bytes(m, text)), 'witness': w})
    res.update(H.ex_summary(ex)); res['samples'].append({'case': params, 'kinds': res['kinds'], 'compared': res['compared']})
    return res


def classify(w):
    if 'int' in w and w['int'] < 0: return ':negative-integer'
    if w.get('str') == '': return ':empty-string'
    return ''


def main():
    chk = H.Check('C19', 'JSON round trip (integers, booleans, null, strings)')
    prog = chk.load(deps=())
    q = chk.tier == 'quick'
    chk.assumptions = ['floating-point fields, nested objects and arrays are outside the claim of this check; strings are printable ASCII without quote and backslash',
                       'integers |v| < 10^4 symbolic plus the listed constants; values go through JSON::to_json_string / JSON::parse_as_properties, the functions ToJSON/FromJSON implementations call']
    cases = [dict(kind='i128', sign='nonneg'), dict(kind='i128', sign='any'), dict(kind='bool'), dict(kind='two')]
    for n in ((0, 1, 2) if q else (0, 1, 2, 3)): cases.append(dict(kind='string', n=n))
    for v in (0, -1, 2 ** 127 - 1, -(2 ** 127), 10 ** 20): cases.append(dict(kind='i128-const', value=v))
    for n in ((0, 1, 2) if q else (0, 1, 2, 3)):
        for ty in (('i64', 'u16') if q else ('i8', 'i16', 'i32', 'i64', 'i128', 'u16', 'u32', 'u64', 'u128')):
            if n == 3 and ty != 'i64': continue
            cases.append(dict(kind='arr-int', ty=ty, n=n))
        cases.append(dict(kind='arr-bool', n=n))
        for sl in (0, 1): cases.append(dict(kind='arr-string', n=n, slen=sl))
    chk.bounds = {'cases': cases}
    results = chk.run_cases(case, cases, label='to_json_string -> parse_as_properties', case_timeout=600 if q else 2400)
    chk.extra['compared'] = sum(r.get('compared', 0) for r in results)

    def replay(v):
        w = v['witness']
        if w['kind'].startswith('arr-'):
            args = [w['kind'].encode(), w['params'].get('ty', '').encode()] + [(str(x).lower() if isinstance(x, bool) else str(x)).encode('latin1') for x in w['items']]
            st, out = chk.oracle.run([('json_array_roundtrip', args)])[0]
            if st != 'ok': return {'reproduced': True, 'native': st, 'msg': out[0].decode('latin1')[:200] if out else ''}
            return {'reproduced': out[0] != b'same', 'native': [x.decode('latin1') for x in out]}
        args = [w['kind'].encode()]
        if 'int' in w: args.append(str(w['int']).encode())
        if 'bool' in w: args.append(b'true' if w['bool'] else b'false')
        if 'str' in w: args.append(w['str'].encode('latin1'))
        st, out = chk.oracle.run([('json_roundtrip', args)])[0]
        if st != 'ok': return {'reproduced': True, 'native': st, 'msg': out[0].decode('latin1')[:200] if out else ''}
        return {'reproduced': out[0] != b'same', 'native': [x.decode('latin1') for x in out]}
    chk.finish(replay_fn=replay, vacuity=lambda: None if chk.extra['compared'] else 'nothing compared')


if __name__ == '__main__':
    main()
