#!/usr/bin/env python3
"""C14 -- request parsing accepts exactly well-formed requests and round-trips them.  Engine S.
Kernels: Request::parse (cursor_read, parse_method_and_request_uri_and_http_version_string, parse_http_request_header_string),
Request::generate / _generate_request, Request::get_header."""
from common import *
from mirse import models as MODELS

VERSIONS = ['HTTP/0.9', 'HTTP/1.0', 'HTTP/1.1', 'HTTP/2.0']


def plan(t):
    q = t == 'quick'
    return dict(m_cap=7, u_cap=2 if q else 3, v_cap=8, target_cap=3 if q else 5, hname_cap=3 if q else 4, hval_cap=4 if q else 6, body_cap=3 if q else 5, nheaders=(0, 1, 2) if q else (0, 1, 2, 3))


def nonspace_printable(b): return z3.And(z3.UGE(b, 0x21), z3.ULE(b, 0x7e))


def upper_z(s):
    return s.map_bytes(MODELS.upper)


def case_boundary(prog, params):
    P = plan(H.tier()); ex = H.new_executor(prog); cons = []
    kind = params['kind']
    res = {'violations': [], 'inconclusive': [], 'samples': [], 'kinds': {}}
    if kind == 'three':
        m = S(params['m']) if params.get('m') else SymStr.fresh('m', P['m_cap'], cons, minlen=1, alphabet=nonspace_printable)
        u = SymStr.fresh('u', P['u_cap'], cons, minlen=1, alphabet=nonspace_printable)
        v = S(params['v']) if params.get('v') else SymStr.fresh('v', P['v_cap'], cons, minlen=1, alphabet=nonspace_printable)
        line = SymStr.join([m, u, v], S(' ')).concat(S('\r\n'))
        known_m = b_or(*[upper_z(m).eq(S(x)) for x in METHODS]); known_v = b_or(*[upper_z(v).eq(S(x)) for x in VERSIONS])
        must_ok = b_and(known_m, known_v); must_err = b_or(b_not(known_m), b_not(known_v))
        syms = dict(m=m, u=u, v=v)
    elif kind == 'two':
        a = SymStr.fresh('a', 7, cons, alphabet=nonspace_printable); b = SymStr.fresh('b', 4, cons, alphabet=nonspace_printable)
        line = SymStr.join([a, b], S(' ')).concat(S('\r\n')); must_ok = False; must_err = True; syms = dict(a=a, b=b)
    else:
        a = SymStr.fresh('a', 8, cons, alphabet=nonspace_printable)
        line = a.concat(S('\r\n')); must_ok = False; must_err = True; syms = dict(a=a)
    st = State(); st.pc = list(cons)
    outs = ex.run_fn('Request::parse_method_and_request_uri_and_http_version_string', [line], st)
    for o in outs:
        k = outcome_kind(o.outcome) + (':' + o.outcome[1].variant if o.outcome[0] == 'return' else ''); res['kinds'][k] = res['kinds'].get(k, 0) + 1
        if o.outcome[0] == 'panic':
            r, mm = ex.check(o.pc)
            if r == 'sat': res['violations'].append({'key': 'C14:request-line-parser-panics', 'text': 'request line parser panics: %s' % o.outcome[1], 'witness': {'kind': 'line', 'line': model_bytes(mm, line).hex()}})
            continue
        if o.outcome[0] != 'return':
            if not o.outcome[1].startswith('domain:'): res['inconclusive'].append({'status': o.outcome[1], 'error': str(o.outcome[2])[:200]})
            continue
        v_ = o.outcome[1]
        if v_.variant == 'Ok':
            r, mm = ex.check(o.pc, must_err)
            if r == 'sat':
                res['violations'].append({'key': 'C14:accepts-malformed-request-line', 'text': 'accepts request line %r' % model_bytes(mm, line), 'witness': {'kind': 'line', 'line': model_bytes(mm, line).hex(), 'expect': 'err'}})
            elif r == 'unknown': res['inconclusive'].append({'status': 'solver-unknown', 'error': 'boundary'})
            if kind == 'three':
                t3 = v_.fields[0].items
                wrong = b_or(b_not(t3[0].eq(syms['m'])), b_not(t3[1].eq(syms['u'])), b_not(t3[2].eq(syms['v'])))
                r, mm = ex.check(o.pc, wrong)
                if r == 'sat':
                    res['violations'].append({'key': 'C14:request-line-fields-differ', 'text': 'parsed fields differ from the line %r' % model_bytes(mm, line), 'witness': {'kind': 'line', 'line': model_bytes(mm, line).hex(), 'expect': 'fields'}})
        else:
            r, mm = ex.check(o.pc, must_ok)
            if r == 'sat':
                res['violations'].append({'key': 'C14:rejects-well-formed-request-line', 'text': 'rejects request line %r' % model_bytes(mm, line), 'witness': {'kind': 'line', 'line': model_bytes(mm, line).hex(), 'expect': 'ok'}})
            elif r == 'unknown': res['inconclusive'].append({'status': 'solver-unknown', 'error': 'boundary'})
    res.update(H.ex_summary(ex)); res['samples'].append({'obligation': 'request-line boundary', 'case': params, 'kinds': res['kinds']})
    return res


def case_utf8(prog, params):
    """a head that is not valid UTF-8 is rejected"""
    P = plan(H.tier()); ex = H.new_executor(prog); cons = []
    pos = params['pos']
    head = SymStr.fresh('h', 4, cons, exact_len=4)
    from mirse.models import utf8_valid
    invalid = b_not(utf8_valid(head.flat()))
    data = S('GET /').concat(head).concat(S(' HTTP/1.1\r\n\r\n')) if pos == 'target' else S('GET / HTTP/1.1\r\nA: ').concat(head).concat(S('\r\n\r\n'))
    # the four bytes must stay inside the head line they were put in (no line feed; in the target also no blank)
    for b in head.flat().bs:
        cons.append(b != 10)
        if pos == 'target': cons.append(b != 0x20)
    st = State(); st.pc = list(cons) + [invalid]
    res = {'violations': [], 'inconclusive': [], 'samples': [], 'kinds': {}}
    outs = ex.run_fn('Request::parse', [data], st)
    for o in outs:
        k = outcome_kind(o.outcome) + (':' + o.outcome[1].variant if o.outcome[0] == 'return' else ''); res['kinds'][k] = res['kinds'].get(k, 0) + 1
        if o.outcome[0] == 'panic':
            r, mm = ex.check(o.pc)
            if r == 'sat': res['violations'].append({'key': 'C14:parse-panics-on-invalid-utf8', 'text': 'Request::parse panics: %s' % o.outcome[1], 'witness': {'kind': 'raw', 'raw': model_bytes(mm, data).hex(), 'expect': 'err'}})
        elif o.outcome[0] == 'return' and o.outcome[1].variant == 'Ok':
            r, mm = ex.check(o.pc)
            if r == 'sat':
                res['violations'].append({'key': 'C14:accepts-invalid-utf8-in-%s' % pos, 'text': 'Request::parse accepts a head that is not valid UTF-8: %r' % model_bytes(mm, data),
                                          'witness': {'kind': 'raw', 'raw': model_bytes(mm, data).hex(), 'expect': 'err'}})
        elif o.outcome[0] == 'stop' and not o.outcome[1].startswith('domain:'):
            res['inconclusive'].append({'status': o.outcome[1], 'error': str(o.outcome[2])[:200]})
    res.update(H.ex_summary(ex)); res['samples'].append({'obligation': 'invalid UTF-8 head rejected', 'case': params, 'kinds': res['kinds']})
    return res


def case_roundtrip(prog, params):
    P = plan(H.tier()); ex = H.new_executor(prog); cons = []
    method = S(params['method']); version = S(params['version'])
    L = params.get('lens') or {}
    target = SymStr.fresh('u', P['target_cap'], cons, alphabet=nonspace_printable, **({'exact_len': L['t']} if 't' in L else {'minlen': 1}))
    hs = []; syms = {'u': target}
    for i in range(params['nh']):
        # names: printable, no ':' , no space (a name containing ": " is not a well-formed header) ; values: any printable text incl. blanks at either
        # end, ':' '=' and ": "
        n = SymStr.fresh('n%d' % i, P['hname_cap'], cons, alphabet=lambda b: z3.And(z3.UGE(b, 0x21), z3.ULE(b, 0x7e), b != 0x3a), **({'exact_len': L['n']} if 'n' in L else {'minlen': 1}))
        v = SymStr.fresh('v%d' % i, P['hval_cap'], cons, alphabet=printable, **({'exact_len': L['v']} if 'v' in L else {'minlen': 1}))
        hs.append(header(n, v)); syms['n%d' % i] = n; syms['v%d' % i] = v
    body = SymStr.fresh('b', P['body_cap'], cons, **({'exact_len': L['b']} if 'b' in L else {})); syms['b'] = body
    req = request(method, target, hs, body=body, version=version)
    st = State(); st.pc = list(cons)
    res = {'violations': [], 'inconclusive': [], 'samples': [], 'kinds': {}}
    gen = ex.run_fn('Request::generate', [req], st)
    for g in gen:
        if g.outcome[0] != 'return':
            k = 'generate:' + outcome_kind(g.outcome); res['kinds'][k] = res['kinds'].get(k, 0) + 1
            if g.outcome[0] == 'panic':
                r, mm = ex.check(g.pc)
                if r == 'sat': res['violations'].append({'key': 'C14:generate-panics', 'text': 'Request::generate panics: %s' % g.outcome[1], 'witness': {'kind': 'rt', 'params': params}})
            continue
        raw = g.outcome[1]
        st2 = State(); st2.pc = list(g.pc)
        outs = ex.run_fn('Request::parse', [raw], st2)
        for o in outs:
            k = 'parse:' + outcome_kind(o.outcome) + (':' + o.outcome[1].variant if o.outcome[0] == 'return' else ''); res['kinds'][k] = res['kinds'].get(k, 0) + 1
            def wit(mm):
                w = {'kind': 'rt', 'method': params['method'], 'version': params['version'], 'target': model_bytes(mm, target).decode('latin1'),
                     'headers': [(model_bytes(mm, syms['n%d' % i]).decode('latin1'), model_bytes(mm, syms['v%d' % i]).decode('latin1')) for i in range(params['nh'])], 'body': model_bytes(mm, body).hex()}
                return w
            if o.outcome[0] == 'panic':
                r, mm = ex.check(o.pc)
                if r == 'sat': res['violations'].append({'key': 'C14:parse-panics-on-generated-request', 'text': 'parse(generate(r)) panics: %s' % o.outcome[1], 'witness': wit(mm)})
                continue
            if o.outcome[0] != 'return':
                if not o.outcome[1].startswith('domain:'): res['inconclusive'].append({'status': o.outcome[1], 'error': str(o.outcome[2])[:200]})
                continue
            v_ = o.outcome[1]
            if v_.variant != 'Ok':
                r, mm = ex.check(o.pc)
                if r == 'sat': res['violations'].append({'key': 'C14:generated-request-rejected', 'text': 'parse(generate(r)) is Err for %r' % (wit(mm),), 'witness': wit(mm)})
                continue
            back = v_.fields[0]
            bm, bu, bv, bh, bb = back.fields
            checks = [('method', b_not(bm.eq(method))), ('target', b_not(bu.eq(target))), ('version', b_not(bv.eq(version))), ('body', b_not(bb.eq(body)))]
            if len(bh.items) != len(hs):
                checks.append(('header-count-%d-for-%d' % (len(bh.items), len(hs)), True))
            else:
                for i, h in enumerate(bh.items):
                    checks.append(('header-name', b_not(h.fields[0].eq(syms['n%d' % i])))); checks.append(('header-value', b_not(h.fields[1].eq(syms['v%d' % i]))))
            for label, bad in checks:
                bad = simp_bool(bad)
                if bad is False: continue
                r, mm = ex.check(o.pc, bad)
                if r == 'unknown': res['inconclusive'].append({'status': 'solver-unknown', 'error': label}); continue
                if r == 'sat':
                    w = wit(mm)
                    cls = label
                    if label == 'header-value' and any(': ' in hv for _, hv in w['headers']): cls = 'header-value-containing-colon-space'
                    res['violations'].append({'key': 'C14:roundtrip:' + cls, 'text': 'parse(generate(r)) differs in %s for %r' % (label, w), 'witness': w})
    res.update(H.ex_summary(ex)); res['samples'].append({'obligation': 'parse(generate(r)) == r', 'case': params, 'kinds': res['kinds']})
    return res


def case_get_header(prog, params):
    ex = H.new_executor(prog); cons = []
    name = SymStr.fresh('n', 4, cons, minlen=1, alphabet=lambda b: z3.Or(z3.And(z3.UGE(b, 65), z3.ULE(b, 90)), z3.And(z3.UGE(b, 97), z3.ULE(b, 122)), b == 45))
    flip = [z3.Bool('flip%d' % i) for i in range(4)]
    def swapcase(b, f): return z3.If(z3.And(f, z3.Or(z3.And(z3.UGE(b, 65), z3.ULE(b, 90)), z3.And(z3.UGE(b, 97), z3.ULE(b, 122)))), b ^ 0x20, b)
    fl = name.flat()
    q = SymStr((Atom(fl.ln, tuple(swapcase(b, f) for b, f in zip(fl.bs, flip)), fl.minlen),))
    other = S('zz')
    req = request('GET', '/', [header(other, 'o'), header(name, 'val')])
    st = State(); st.pc = list(cons)
    res = {'violations': [], 'inconclusive': [], 'samples': [], 'kinds': {}}
    outs = ex.run_fn('Request::get_header', [req, q], st)
    for o in outs:
        k = outcome_kind(o.outcome); res['kinds'][k] = res['kinds'].get(k, 0) + 1
        if o.outcome[0] != 'return':
            res['inconclusive'].append({'status': str(o.outcome[1]), 'error': str(o.outcome[2])[:200]}); continue
        v_ = o.outcome[1]
        bad = True if v_.variant != 'Some' else b_not(v_.fields[0].fields[1].eq(S('val')))
        # the lookup name differs from "zz" only in case -> could legitimately hit the first header; exclude
        bad = b_and(bad, b_not(MODELS.lower and name.map_bytes(MODELS.lower).eq(S('zz'))))
        r, mm = ex.check(o.pc, bad)
        if r == 'sat':
            res['violations'].append({'key': 'C14:get_header-case-sensitive', 'text': 'get_header(%r) misses header %r' % (model_bytes(mm, q), model_bytes(mm, name)),
                                      'witness': {'kind': 'get_header', 'name': model_bytes(mm, name).decode(), 'query': model_bytes(mm, q).decode()}})
    res.update(H.ex_summary(ex)); res['samples'].append({'obligation': 'get_header ignores ASCII case', 'kinds': res['kinds']})
    return res


def case(prog, params):
    return {'boundary': case_boundary, 'utf8': case_utf8, 'rt': case_roundtrip, 'get_header': case_get_header}[params['ob']](prog, params)


def native_parse(chk, raw):
    st, out = chk.oracle.run([('request_parse', [raw])])[0]
    if st != 'ok': return st, None
    hs = [(out[i].decode('latin1'), out[i + 1].decode('latin1')) for i in range(4, len(out), 2)]
    return st, {'method': out[0].decode('latin1'), 'target': out[1].decode('latin1'), 'version': out[2].decode('latin1'), 'body': out[3], 'headers': hs}


def main():
    chk = H.Check('C14', 'request parsing: boundary and round trip')
    prog = chk.load(deps=())
    P = plan(chk.tier); chk.bounds = dict(P, methods=METHODS, versions=VERSIONS)
    chk.assumptions = ['ASCII heads except in the invalid-UTF-8 obligation; header names contain no ":" or blank, header values are printable with no leading/trailing blank; bodies are arbitrary bytes',
                       'what the statement leaves open (letter case of method/version, surrounding blanks) is not asserted either way']
    cases = [dict(ob='boundary', kind='three')]
    for m in METHODS: cases.append(dict(ob='boundary', kind='three', m=m))
    for v in VERSIONS: cases.append(dict(ob='boundary', kind='three', v=v))
    cases += [dict(ob='boundary', kind='two'), dict(ob='boundary', kind='one'), dict(ob='utf8', pos='target'), dict(ob='utf8', pos='header'), dict(ob='get_header')]
    # round trip: one case per combination of concrete lengths (positions concrete, bytes symbolic)
    import itertools
    q = chk.tier == 'quick'
    T = range(1, P['target_cap'] + 1); NL = range(1, P['hname_cap'] + 1); VL = range(1, P['hval_cap'] + 1); BL = range(0, P['body_cap'] + 1)
    for m in METHODS:
        for v in VERSIONS:
            cases.append(dict(ob='rt', method=m, version=v, nh=0, lens=dict(t=1, b=1)))
    for t in T:
        for b in BL:
            cases.append(dict(ob='rt', method='GET', version='HTTP/1.1', nh=0, lens=dict(t=t, b=b)))
            for n in NL:
                for vl in VL:
                    cases.append(dict(ob='rt', method='POST', version='HTTP/1.1', nh=1, lens=dict(t=t, b=b, n=n, v=vl)))
    for n in NL:
        for vl in VL:
            for b in (0, 2):
                cases.append(dict(ob='rt', method='GET', version='HTTP/1.1', nh=2, lens=dict(t=1, b=b, n=n, v=vl)))
    if not q:
        cases.append(dict(ob='rt', method='GET', version='HTTP/1.1', nh=3, lens=dict(t=2, b=2, n=2, v=3)))
    chk.run_cases(case, cases, label='C14 obligations')

    def replay(v):
        w = v['witness']
        if w['kind'] == 'line' or w['kind'] == 'raw':
            raw = bytes.fromhex(w.get('line') or w.get('raw'))
            if w['kind'] == 'line': raw = raw + b'\r\n'
            st, p = native_parse(chk, raw)
            exp = w.get('expect')
            if exp == 'err': return {'reproduced': st == 'ok', 'native': st, 'parsed': str(p)[:200]}
            if exp == 'ok': return {'reproduced': st != 'ok', 'native': st}
            return {'reproduced': st == 'panic' or st == 'ok', 'native': st, 'parsed': str(p)[:200]}
        if w['kind'] == 'rt':
            if 'target' not in w: return {'reproduced': False}
            st, out = chk.oracle.run([('request_generate', [w['method'].encode(), w['target'].encode('latin1'), w['version'].encode(), bytes.fromhex(w['body']), len(w['headers'])] +
                                       [x.encode('latin1') for h in w['headers'] for x in h])])[0]
            if st != 'ok': return {'reproduced': st == 'panic', 'native': st}
            st2, p = native_parse(chk, out[0])
            if st2 != 'ok': return {'reproduced': True, 'native': st2}
            same = (p['method'] == w['method'] and p['target'] == w['target'] and p['version'] == w['version'] and p['body'] == bytes.fromhex(w['body']) and [list(h) for h in p['headers']] == [list(h) for h in w['headers']])
            return {'reproduced': not same, 'native_parsed': str(p)[:300]}
        if w['kind'] == 'get_header':
            return {'reproduced': None, 'detail': 'no native command'}
        return {'reproduced': False}
    chk.finish(replay_fn=replay)


if __name__ == '__main__':
    main()
