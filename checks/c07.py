#!/usr/bin/env python3
"""C07 -- the worker pool runs every task exactly once, N at a time, without deadlock.  Engine T.
Front end: MIR of Worker::new::{closure#0}, ThreadPool::new, ThreadPool::execute executed with abstract models of the
synchronisation primitives (event extraction).  Back end: bounded model checking of N workers + submitter in z3 (QF_BV),
the schedule being a symbolic sequence of thread ids."""
from common import *
from mirse import pool as P


def plan(t):
    """core: configurations that must be decided (a timeout makes the check inconclusive); extra: best effort, reported as undecided"""
    core = [(1, ['instant'] * 2), (2, ['rv'] * 2), (2, ['instant'] * 3), (2, ['rv', 'rv', 'instant']), (3, ['rv'] * 3), (3, ['rv'] * 3 + ['instant'])]
    if t == 'quick':
        return dict(core=core, extra=[], sizes=(1, 2, 3, 4), timeout_ms=120000)
    extra = [(3, ['instant'] * 4), (3, ['instant', 'rv', 'rv', 'rv', 'instant']), (4, ['rv'] * 4), (4, ['rv'] * 4 + ['instant']), (2, ['instant'] * 5), (3, ['instant'] * 6)]
    return dict(core=core + [(1, ['instant'] * 4), (2, ['instant', 'rv', 'rv'])], extra=extra, sizes=(1, 2, 3, 4, 5, 8), timeout_ms=1500000)


def _bmc_job(args):
    auto_traces, N, jobs, K, q, to = args
    auto = P.Automaton(auto_traces)
    r, wit, dt = P.bmc(auto, N, jobs, K, q, timeout_ms=to)
    return (N, jobs, K, q, r, wit, dt)


def main():
    chk = H.Check('C07', 'worker pool: exactly once, N at a time, no deadlock')
    prog = chk.load(deps=())
    pl = plan(chk.tier)
    w = P.extract_worker(prog)
    chk.used_fns.update(w['used_fns']); chk.used_models.update(w['used_models'])
    auto = P.Automaton(w['traces'])
    chk.extra['worker_iteration_traces'] = [[list(map(list, evs)), kind] for evs, kind in w['traces']]
    chk.extra['worker_automaton'] = auto.describe()
    chk.samples.append({'iteration_traces': chk.extra['worker_iteration_traces']})
    chk.assumptions = ['contracts of std::sync::Mutex (exclusive, blocking, poisoned after a holder panics), mpsc channel (FIFO, recv blocks while empty, never disconnected while the pool lives), thread::Builder::spawn (adds one thread)',
                       'scheduler: any enabled thread may move (no fairness needed: properties are about maximal runs and stuck states)',
                       'task bodies: instant | rendezvous of all rendezvous tasks; start and finish are separate events',
                       'println!/eprintln! are no-ops; panics inside them and spawn failure at start-up are not modelled']
    # --- structural obligations from the extracted traces
    nq = 0
    for evs, kind in w['traces']:
        names = [e[0] + (':' + e[1] if len(e) > 1 else '') for e in evs]
        recv_ok = sum(1 for e in evs if e[0] in ('recv', 'try_recv') and e[1] == 'ok')
        calls = sum(1 for e in evs if e[0] == 'call')
        if kind == 'exit':
            chk.violations.append({'key': 'C07:worker-loop-exits', 'text': 'a path through the worker loop leaves the loop: %s' % names, 'witness': {'trace': names, 'tasks': 'ii', 'N': 1}})
        elif kind == 'panic':
            chk.violations.append({'key': 'C07:worker-loop-panics', 'text': 'a path through the worker loop panics: %s' % names, 'witness': {'trace': names}})
        elif kind != 'loop':
            chk.inconclusive.append({'status': kind, 'error': 'worker loop path %s' % names})
        if calls != recv_ok:
            chk.violations.append({'key': 'C07:received-task-not-run-once', 'text': 'iteration receives %d task(s) but runs %d: %s' % (recv_ok, calls, names),
                                   'witness': {'trace': names, 'tasks': 'ii', 'N': 1}})
    # --- pool creation: exactly `size` workers
    news = P.extract_new(prog, pl['sizes'])
    chk.extra['spawns_per_size'] = {str(k): v for k, v in news.items()}
    for n, res in news.items():
        for outcome, spawns in res:
            if outcome == 'return' and spawns != n:
                chk.violations.append({'key': 'C07:pool-size', 'text': 'ThreadPool::new(%d) starts %d workers' % (n, spawns), 'witness': {'N': n, 'tasks': 'r' * n}})
            if outcome != 'return':
                chk.violations.append({'key': 'C07:pool-new-' + outcome, 'text': 'ThreadPool::new(%d) ends with %s' % (n, outcome), 'witness': {'N': n, 'tasks': ''}})
    exe = P.extract_execute(prog)
    chk.extra['execute_traces'] = [[list(map(list, t)), o] for t, o in exe]
    for t, o in exe:
        sends = [e for e in t if e[0] == 'send']
        if len(sends) != 1 or o != 'return':
            chk.violations.append({'key': 'C07:execute-sends-%d' % len(sends), 'text': 'ThreadPool::execute performs %d sends (%s)' % (len(sends), o), 'witness': {'N': 1, 'tasks': 'i'}})
    # --- BMC
    solver_s = 0.0; states = 0
    evmax = max([len([e for e in evs if e[0] in ('lock', 'unlock', 'recv', 'try_recv', 'call', 'sleep', 'try_lock')]) for evs, _ in w['traces']] + [1])
    import multiprocessing
    tasks = []
    for (N, jobs) in pl['core'] + pl['extra']:
        M = len(jobs)
        K = M * (evmax + 2) + N + 1
        for q in ('double', 'stuck', 'long'):
            tasks.append((w['traces'], N, jobs, K, q, pl['timeout_ms']))
    ncore = len(pl['core']) * 3
    with multiprocessing.get_context('fork').Pool(min(H.ncpu(), len(tasks))) as mp:
        results = mp.map(_bmc_job, tasks, chunksize=1)
    undecided = []
    for idx, (N, jobs, K, q, r, wit, dt) in enumerate(results):
        M = len(jobs)
        solver_s += dt; nq += 1; states += K * (N + 1)
        chk.stats['queries'] += 1; chk.stats[r] += 1; chk.stats['solver_s'] += dt
        rec = {'N': N, 'tasks': jobs, 'K': K, 'query': q, 'result': r, 'solver_s': round(dt, 2)}
        if len(chk.samples) < 10: chk.samples.append(rec)
        if r == 'unknown':
            if idx < ncore: chk.inconclusive.append({'status': 'solver-unknown', 'error': str(rec)})
            else: undecided.append(rec)
        elif r == 'sat':
            if q == 'long':
                chk.inconclusive.append({'status': 'bound:unwinding', 'error': 'a run of %d enabled steps exists (busy loop or bound too small): %s' % (K, wit)})
            else:
                key = {'double': 'C07:task-started-twice', 'stuck': 'C07:stuck-with-unfinished-task'}[q]
                if q == 'stuck' and all(j == 'rv' for j in jobs) and M <= N: key = 'C07:fewer-than-N-tasks-run-simultaneously'
                chk.violations.append({'key': key, 'text': '%s: N=%d tasks=%s schedule=%s final=%s' % (key, N, jobs, wit['schedule'], wit['final']),
                                       'witness': {'N': N, 'tasks': ''.join('r' if j == 'rv' else 'i' for j in jobs), 'schedule': wit['schedule'], 'final': wit['final']}})
    chk.extra['undecided_best_effort_configurations'] = undecided
    chk.stats['paths'] = states; chk.stats['steps'] = max(1, w['stats']['steps'])
    chk.bounds = {'configurations (N, tasks) that must be decided': pl['core'], 'best effort': pl['extra'], 'K': 'tasks*(events per iteration+2) + N + 1, checked by the "long" query (no run of K enabled steps exists)'}
    chk.extra['bmc_queries'] = nq

    def replay(v):
        wi = v['witness']
        if 'tasks' not in wi: return {'reproduced': False, 'detail': 'no native replay for this structural finding'}
        N = wi['N']; tasks = wi['tasks'] or 'i'
        runs = []
        for mode in ([], ['B'], ['B']):
            st, out = chk.oracle.run([('pool', [N] + mode + [c for c in tasks])], timeout=30)[0]
            if st != 'ok': runs.append((st,)); continue
            done = int(out[0]); counts = [int(x) for x in out[1].decode().split(',')]; maxrun = int(out[2])
            runs.append((done, counts, maxrun))
        bad = any((r[0] != 'ok' and len(r) == 1) or (len(r) == 3 and (r[0] < len(tasks) or any(c != 1 for c in r[1]))) for r in runs)
        return {'reproduced': bad, 'native_runs': runs, 'note': 'real ThreadPool with %s, submitted directly and behind a backlog (every worker busy while the tasks are queued); a run is bad when a task is not executed exactly once within the watchdog' % tasks}
    chk.finish(replay_fn=replay)


if __name__ == '__main__':
    main()
