#!/usr/bin/env python3
"""C08 -- concurrent requests do not influence one another.  Engine S (reduction) + stated argument.
What is decided: on every symbolic path of the per-connection code (Server::process -> Request::parse -> App::execute ->
controllers -> Response::generate_response, request shapes as in C10) the executor's accesses go only to the call's own
frames and heap objects, to constants, to the environment *read* model and to the filesystem *read* model.  The executor
has no silent fallback: thread-locals, statics with interior mutability, `static mut`, locks, env::set_var,
set_current_dir or any file-mutating call on a feasible path are terminal states ("shared state").  In addition the MIR
of the whole crate is scanned for definitions of mutable statics / thread-locals reachable from the request path.
From "no shared mutable location is touched" isolation follows for any interleaving (data-race-freedom argument, stated
in evidence, not a solver result)."""
import re as _re
from pipeline import *
import c10 as C10
from mirse import models as MODELS

SHARED_PATTERNS = [r'LocalKey', r'thread_local', r'OnceLock', r'OnceCell', r'LazyLock', r'LazyCell', r'RefCell', r'(^|[^a-zA-Z])Cell::', r'Atomic[A-Z]\w*::', r'Mutex::', r'RwLock::',
                   r'set_current_dir', r'^set_var$', r'env::set_var', r'remove_var', r'static_mut', r'UnsafeCell']


def shared_model(ex, st, c):
    return StopR('shared-state', '%s at %s' % (c.callee[:120], st.where()))


def registry():
    return [(_re.compile(p), shared_model) for p in SHARED_PATTERNS]


LEAVES = [('MimeType::detect_mime_type', 'mime')]


def case_leaf(prog, params):
    """functions that the pipeline obligations replace by an uninterpreted result (detect_mime_type) are executed here on their own
    under the same shared-state monitor, so that state hidden inside them is not missed"""
    ex = H.new_executor(prog)
    ex.models = registry() + ex.models; ex.model_cache = {}; ex.shared_static_stop = True
    cons = []
    from common import printable
    name = SymStr.fresh('leafname', params['n'], cons, exact_len=params['n'], alphabet=printable)
    st = State(); st.pc = list(cons)
    outs = ex.run_fn(params['fn'], [name], st)
    res = {'violations': [], 'inconclusive': [], 'samples': [], 'kinds': {}, 'env_reads': set(), 'env_writes': 0}
    for o in outs:
        k = outcome_kind(o.outcome); res['kinds'][k] = res['kinds'].get(k, 0) + 1
        if o.outcome[0] == 'stop' and o.outcome[1] in ('shared-state', 'fs-mutation'):
            r, m = ex.check(o.pc)
            if r != 'sat': continue
            what = str(o.outcome[2])
            res['violations'].append({'key': 'C08:%s:%s' % (o.outcome[1], _re.sub(r'::<.*', '', what.split(' at ')[0].split(' reached')[0])[:60]),
                                      'text': '%s touches shared mutable state: %s' % (params['fn'], what),
                                      'witness': {'kind': 'leaf', 'fn': params['fn'], 'op': params['op'], 'arg': model_bytes(m, name).decode('latin1')}})
        elif o.outcome[0] == 'stop' and not o.outcome[1].startswith('domain:'):
            res['inconclusive'].append({'status': o.outcome[1], 'error': str(o.outcome[2])[:200]})
    res.update(H.ex_summary(ex)); res['env_reads'] = []
    res['samples'].append({'case': params, 'kinds': res['kinds']})
    return res


def case(prog, params):
    if params.get('kind') == 'leaf': return case_leaf(prog, params)
    ex = new_ex(prog)
    if params.get('kind') == 'multipart': ex.fork_read_until = 6
    ex.models = registry() + ex.models; ex.model_cache = {}; ex.shared_static_stop = True
    cons = []
    reqb, sy = C10.build_request(params, cons)
    res = {'violations': [], 'inconclusive': [], 'samples': [], 'kinds': {}, 'env_reads': set(), 'env_writes': 0}

    def term(o):
        k = outcome_kind(o.outcome); res['kinds'][k] = res['kinds'].get(k, 0) + 1
        for e in o.trace:
            if e[0] == 'env.read': res['env_reads'].add(e[1])
            if e[0] == 'env.write': res['env_writes'] += 1
        if o.outcome[0] == 'stop' and o.outcome[1] in ('shared-state', 'fs-mutation'):
            r, m = ex.check(o.pc)
            if r != 'sat': return
            wreq = model_bytes(m, reqb)
            what = str(o.outcome[2])
            res['violations'].append({'key': 'C08:%s:%s' % (o.outcome[1], _re.sub(r'::<.*', '', what.split(' at ')[0].split(' reached')[0])[:60]),
                                      'text': 'request handling touches shared mutable state: %s (request %r)' % (what, wreq), 'witness': {'request': wreq.hex(), 'kind': params['kind']}})
        elif o.outcome[0] == 'stop' and not o.outcome[1].startswith('domain:'):
            res['inconclusive'].append({'status': o.outcome[1], 'error': str(o.outcome[2])[:200]})
        if any(e[0] == 'env.write' for e in o.trace):
            r, m = ex.check(o.pc)
            if r == 'sat':
                res['violations'].append({'key': 'C08:env-write', 'text': 'request handling writes the process environment', 'witness': {'request': model_bytes(m, reqb).hex(), 'kind': params['kind']}})
    run_process(ex, reqb, cons, term, stream={'read_fail': True} if params['kind'] == 'readfail' else None, app_mode='abstract-fail' if params['kind'] == 'apperr' else 'real')
    res.update(H.ex_summary(ex))
    res['env_reads'] = sorted(res['env_reads'])
    res['samples'].append({'case': params, 'kinds': res['kinds'], 'environment_variables_read': res['env_reads']})
    return res


def scan_statics(prog):
    """definitions of mutable global state in the crates' MIR"""
    hits = []
    for crate, fns in prog.crate_fns.items():
        for name, f in fns.items():
            if f.is_const and (_re.search(r'(Mutex|RwLock|Atomic|Cell|OnceLock|LazyLock|LocalKey|UnsafeCell)', f.ret or '') or name.startswith('static mut')):
                hits.append((crate, name, f.ret))
            if '__getit' in name or 'thread_local' in name.lower() or '::{constant#' in name and 'LocalKey' in (f.ret or ''):
                hits.append((crate, name, f.ret))
    return hits


def main():
    chk = H.Check('C08', 'concurrent requests do not influence one another')
    prog = chk.load()
    lem = lemmas.lemma_filter_string(prog, 5); chk.extra['lemmas'] = [lem]
    cases = C10.shapes(chk.tier)
    cases = cases + [dict(kind='leaf', fn=fn, op=op, n=n) for fn, op in LEAVES for n in ((1, 2, 3, 4) if chk.tier == 'quick' else (1, 2, 3, 4, 5, 6))]
    chk.bounds = {'request shapes': cases, 'leaf functions executed on their own (uninterpreted in the pipeline)': [l[0] for l in LEAVES]}
    chk.assumptions = ['isolation is inferred from the absence of shared mutable state on every explored path (data-race-freedom argument); interleavings inside handlers are not explored',
                       'the two modelled nondeterminisms are the clock and HashMap iteration order, as the property exempts',
                       'the closure handed to pool.execute captures stream, connection and app by move (checked in MIR below)']
    results = chk.run_cases(case, cases, label='per-connection code: shared-state monitor')
    reads = set()
    for r in results: reads.update(r.get('env_reads', []))
    chk.extra['environment_variables_read_by_request_handling'] = sorted(reads)
    statics = scan_statics(prog)
    chk.extra['mutable_statics_or_thread_locals_defined'] = [list(map(str, s)) for s in statics]
    for crate, name, ty in statics:
        if crate == 'rws':
            # a definition alone is not a violation (it may never be touched while serving); the path monitor above decides
            chk.notes.append('crate defines shared mutable state %s: %s' % (name, ty))
    # closure capture mode
    fn = None
    for name, f in prog.crate_fns['rws'].items():
        if _re.search(r'server::.*::run::\{closure#0\}$', name): fn = f
    if fn is None: chk.inconclusive.append({'status': 'missing', 'error': 'Server::run closure not found'})
    else:
        pty = fn.params[0][1]
        chk.extra['connection_closure_self_type'] = pty
        if pty.startswith('&'):
            chk.violations.append({'key': 'C08:connection-closure-borrows', 'text': 'the per-connection closure captures by reference: %s' % pty, 'witness': {'kind': 'static'}})

    def replay(v):
        w = v['witness']
        if w.get('kind') == 'static': return {'reproduced': True, 'detail': 'definition present in the MIR of the current tree'}
        if w.get('kind') == 'leaf':
            # native confirmation: the result for a name after another call in the same process must equal its result in a fresh process
            a = w['arg']
            probes = [a, a.swapcase(), a.upper(), a.lower(), 'x.SVG', 'x.svg', 'a.TXT', 'a.txt', '.txt', 'b', 'X.HTML', 'x.html', 'x.Js', 'x.js']
            alone = {}
            for q in probes:
                st, out = chk.oracle.run([(w['op'], [q.encode('latin1')])])[0]
                alone[q] = (st, out)
            for p_ in probes:
                for q in probes:
                    if p_ == q: continue
                    r = chk.oracle.run([(w['op'], [p_.encode('latin1')]), (w['op'], [q.encode('latin1')])])
                    if len(r) == 2 and r[1] != alone[q]:
                        return {'reproduced': True, 'first': p_, 'then': q, 'alone': str(alone[q]), 'after_first': str(r[1])}
            return {'reproduced': False, 'detail': 'no probe pair showed a dependence on call history'}
        # two requests on the same thread: the victim's response after another request must equal its response alone
        reqb = b'POST /form-url-encoded-enctype-post-method HTTP/1.1\r\nContent-Type: application/x-www-form-urlencoded\r\n\r\nx=1'
        other = b'POST /form-url-encoded-enctype-post-method HTTP/1.1\r\nContent-Type: application/x-www-form-urlencoded\r\n\r\nsecret=alice-0123456789-0123456789-0123456789'
        outs = []
        for seq in ([reqb], [other, reqb], [reqb, other, reqb]):
            st, out = chk.oracle.run([('process_seq', [max(len(other), len(reqb))] + seq)], env={'RWS_CONFIG_CORS_ALLOW_ALL': 'true'})[0]
            outs.append((st, out[-1] if out else b''))
        def strip(b): return _re.sub(rb'Date-Unix-Epoch-Nanos: \d+', b'', b)
        base = strip(outs[0][1])
        diff = any(strip(o[1]) != base for o in outs[1:]) or any(o[0] != 'ok' for o in outs)
        return {'reproduced': bool(diff), 'native_status': [o[0] for o in outs], 'alone_len': len(outs[0][1]), 'after_other_len': len(outs[1][1])}
    chk.finish(replay_fn=replay)


if __name__ == '__main__':
    main()
