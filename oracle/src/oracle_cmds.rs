{
    Err(format!("unknown oracle command {}", cmd))
}
