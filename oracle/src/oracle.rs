//! Command interpreter over the real rws code.  Protocol: one command per stdin line,
//! `<cmd> <hex>*`; one reply line per command: `ok <hex>*` | `err <hex msg>` | `panic <hex msg>`.
use std::io::{BufRead, Read, Write};
use std::panic;

use crate::header::Header;
use crate::request::Request;

fn hex(b: &[u8]) -> String {
    if b.is_empty() { return "-".to_string(); }
    let mut s = String::with_capacity(b.len() * 2);
    for x in b { s.push_str(&format!("{:02x}", x)); }
    s
}

fn unhex(s: &str) -> Vec<u8> {
    if s == "-" { return vec![]; }
    let b = s.as_bytes();
    let mut out = Vec::with_capacity(b.len() / 2);
    let mut i = 0;
    while i + 1 < b.len() {
        out.push(u8::from_str_radix(&s[i..i + 2], 16).unwrap());
        i += 2;
    }
    out
}

fn ustr(s: &str) -> String { String::from_utf8(unhex(s)).expect("oracle arg must be utf-8") }

/// an application whose handler always reports an error (replay of the "application fails" branch)
pub struct ErrApp {}
impl crate::application::Application for ErrApp {
    fn execute(&self, _request: &Request, _connection: &crate::server::ConnectionInfo) -> Result<crate::response::Response, String> {
        Err("application error".to_string())
    }
}

pub struct MockStream {
    pub input: Vec<u8>,
    pub pos: usize,
    pub output: Vec<u8>,
    pub writes: Vec<usize>,
    pub flushes: usize,
    /// per-call script for write: each entry = max bytes accepted (usize::MAX = all), or 0xFFFF_FFFF_FFFF_FFFE => Err
    pub write_script: Vec<usize>,
    pub read_err: bool,
    pub flush_err: bool,
}

impl Read for MockStream {
    fn read(&mut self, buf: &mut [u8]) -> std::io::Result<usize> {
        if self.read_err { return Err(std::io::Error::new(std::io::ErrorKind::ConnectionReset, "mock read error")); }
        let n = std::cmp::min(buf.len(), self.input.len() - self.pos);
        buf[..n].copy_from_slice(&self.input[self.pos..self.pos + n]);
        self.pos += n;
        Ok(n)
    }
}

impl Write for MockStream {
    fn write(&mut self, buf: &[u8]) -> std::io::Result<usize> {
        let k = self.writes.len();
        let lim = if k < self.write_script.len() { self.write_script[k] } else { usize::MAX };
        if lim == usize::MAX - 1 {
            self.writes.push(0);
            return Err(std::io::Error::new(std::io::ErrorKind::BrokenPipe, "mock write error"));
        }
        let n = std::cmp::min(lim, buf.len());
        self.output.extend_from_slice(&buf[..n]);
        self.writes.push(n);
        Ok(n)
    }
    fn flush(&mut self) -> std::io::Result<()> {
        self.flushes += 1;
        if self.flush_err { return Err(std::io::Error::new(std::io::ErrorKind::BrokenPipe, "mock flush error")); }
        Ok(())
    }
}

fn headers_out(hs: &Vec<Header>) -> Vec<String> {
    let mut out = vec![];
    for h in hs { out.push(hex(h.name.as_bytes())); out.push(hex(h.value.as_bytes())); }
    out
}

fn mk_request(args: &[&str]) -> Request {
    // method uri version body nheaders (name value)*
    let n: usize = args[4].parse().unwrap();
    let mut headers = vec![];
    for i in 0..n { headers.push(Header { name: ustr(args[5 + 2 * i]), value: ustr(args[6 + 2 * i]) }); }
    Request { method: ustr(args[0]), request_uri: ustr(args[1]), http_version: ustr(args[2]), headers, body: unhex(args[3]) }
}

fn dispatch(cmd: &str, a: &[&str]) -> Result<Vec<String>, String> {
    match cmd {
        "ping" => Ok(vec![hex(b"pong")]),
        "cors_get_headers" => {
            let req = mk_request(a);
            Ok(headers_out(&crate::cors::Cors::get_headers(&req)))
        }
        "cors_allow_all" => {
            let req = mk_request(a);
            match crate::cors::Cors::allow_all(&req) { Ok(h) => Ok(headers_out(&h)), Err(e) => Err(e.message) }
        }
        "cors_default" => {
            let req = mk_request(a);
            match crate::cors::Cors::process_using_default_config(&req) { Ok(h) => Ok(headers_out(&h)), Err(e) => Err(e.message) }
        }
        "process" | "process_request" => {
            // args: request bytes, request_size, [write script entries: decimal; "E" = error], flags: r=read error f=flush error
            let input = unhex(a[0]);
            let size: i64 = a[1].parse().unwrap();
            let mut script = vec![];
            let mut read_err = false; let mut flush_err = false; let mut err_app = false;
            for t in &a[2..] {
                if *t == "E" { script.push(usize::MAX - 1); }
                else if *t == "A" { err_app = true; }
                else if *t == "r" { read_err = true; }
                else if *t == "f" { flush_err = true; }
                else { script.push(t.parse::<usize>().unwrap()); }
            }
            let mut stream = MockStream { input, pos: 0, output: vec![], writes: vec![], flushes: 0, write_script: script, read_err, flush_err };
            let result: Result<(), String>;
            if cmd == "process" {
                let conn = crate::server::ConnectionInfo {
                    client: crate::server::Address { ip: "127.0.0.1".to_string(), port: 50000 },
                    server: crate::server::Address { ip: "127.0.0.1".to_string(), port: 7878 },
                    request_size: size,
                };
                if err_app {
                    result = crate::server::Server::process(&mut stream, conn, ErrApp {});
                } else {
                    let app = crate::app::App {};
                    result = crate::server::Server::process(&mut stream, conn, app);
                }
            } else {
                std::env::set_var("RWS_CONFIG_REQUEST_ALLOCATION_SIZE_IN_BYTES", size.to_string());
                let peer = std::net::SocketAddr::new(std::net::IpAddr::V4(std::net::Ipv4Addr::new(127, 0, 0, 1)), 50000);
                crate::server::Server::process_request(&mut stream, peer);
                result = Ok(());
            }
            let mut out = vec![hex(&stream.output)];
            out.push(match &result { Ok(()) => hex(b"ok"), Err(e) => hex(format!("err:{}", e).as_bytes()) });
            out.push(hex(format!("{}", stream.writes.len()).as_bytes()));
            out.push(hex(format!("{}", stream.flushes).as_bytes()));
            Ok(out)
        }
        "request_parse" => {
            match crate::request::Request::parse(&unhex(a[0])) {
                Ok(r) => {
                    let mut out = vec![hex(r.method.as_bytes()), hex(r.request_uri.as_bytes()), hex(r.http_version.as_bytes()), hex(&r.body)];
                    out.extend(headers_out(&r.headers));
                    Ok(out)
                }
                Err(e) => Err(e)
            }
        }
        "multipart_roundtrip" => {
            // boundary, mode (roundtrip|no-open|no-close), nparts, then name value body per part (single header each)
            use crate::body::multipart_form_data::{FormMultipartData, Part};
            let boundary = ustr(a[0]); let mode = ustr(a[1]); let n: usize = a[2].parse().unwrap();
            let mut parts = vec![];
            for i in 0..n { parts.push(Part { headers: vec![Header { name: ustr(a[3 + 3 * i]), value: ustr(a[4 + 3 * i]) }], body: unhex(a[5 + 3 * i]) }); }
            let mut data = FormMultipartData::generate(parts, &boundary)?;
            if mode == "no-open" { data = data[boundary.len() + 2..].to_vec(); }
            if mode == "no-close" { let l = data.len() - boundary.len(); data.truncate(l); }
            let parsed = FormMultipartData::parse(&data, boundary.clone())?;
            let mut out = vec![];
            for p in parsed {
                let h = p.headers.get(0);
                out.push(hex(h.map(|x| x.name.clone()).unwrap_or("<none>".to_string()).as_bytes()));
                out.push(hex(h.map(|x| x.value.clone()).unwrap_or("<none>".to_string()).as_bytes()));
                out.push(hex(&p.body));
            }
            Ok(out)
        }
        "parser" => {
            // fn name, input bytes [, boundary]: calls the named library parser; the reply only says whether it returned
            let f = ustr(a[0]); let raw = unhex(a[1]);
            let text = String::from_utf8_lossy(&raw).to_string();
            let r: String = match f.as_str() {
                "RawUnprocessedJSONArray::split_into_vector_of_strings" => format!("{:?}", crate::json::array::RawUnprocessedJSONArray::split_into_vector_of_strings(text).is_ok()),
                "JSONArrayOfIntegers::parse_as_list_i64" => format!("{:?}", crate::json::array::integer::JSONArrayOfIntegers::parse_as_list_i64(text).is_ok()),
                "JSONArrayOfStrings::parse_as_list_string" => format!("{:?}", crate::json::array::string::JSONArrayOfStrings::parse_as_list_string(text).is_ok()),
                "JSONArrayOfBooleans::parse_as_list_bool" => format!("{:?}", crate::json::array::boolean::JSONArrayOfBooleans::parse_as_list_bool(text).is_ok()),
                "JSON::parse_as_properties" => format!("{:?}", crate::json::object::JSON::parse_as_properties(text).is_ok()),
                "JSONProperty::parse" => format!("{:?}", crate::json::property::JSONProperty::parse(&text).is_ok()),
                "Base64::decode" => format!("{:?}", crate::core::base64::Base64::decode(text).is_ok()),
                "Base64::decode_sequence" => format!("{:?}", crate::core::base64::Base64::decode_sequence(text).is_ok()),
                "Base64::convert_base64_char_to_number" => format!("{:?}", crate::core::base64::Base64::convert_base64_char_to_number(text.chars().next().unwrap_or('A')).is_ok()),
                "Base64::convert_number_to_base64_char" => format!("{:?}", crate::core::base64::Base64::convert_number_to_base64_char(*raw.get(0).unwrap_or(&0)).is_ok()),
                "Header::parse_header" => format!("{:?}", Header::parse_header(&text).is_ok()),
                "ContentDisposition::parse" => format!("{:?}", crate::header::content_disposition::ContentDisposition::parse(&text).is_ok()),
                "Range::parse_range_in_content_range" => format!("{:?}", crate::range::Range::parse_range_in_content_range(ustr(a[2]).parse::<u64>().unwrap_or(0), &text).is_ok()),
                "Range::_parse_raw_content_range_header_value" => format!("{:?}", crate::range::Range::_parse_raw_content_range_header_value(&text).is_ok()),
                "UrlPath::extract_parts_from_pattern" => format!("{:?}", crate::url::path::UrlPath::extract_parts_from_pattern(&text).is_ok()),
                "URL::parse" => format!("{:?}", crate::url::URL::parse(&text).is_ok()),
                "Request::parse" => format!("{:?}", Request::parse(&raw).is_ok()),
                "Response::parse" => format!("{:?}", crate::response::Response::parse(&raw).is_ok()),
                "FormMultipartData::parse" => format!("{:?}", crate::body::multipart_form_data::FormMultipartData::parse(&raw, ustr(a[2])).is_ok()),
                "FormUrlEncoded::parse" => format!("{:?}", crate::body::form_urlencoded::FormUrlEncoded::parse(raw.clone()).is_ok()),
                "Range::parse_multipart_body" => { let mut c = std::io::Cursor::new(&raw[..]); format!("{:?}", crate::range::Range::parse_multipart_body(&mut c, vec![]).is_ok()) }
                _ => return Err(format!("unknown parser {}", f)),
            };
            Ok(vec![hex(r.as_bytes())])
        }
        "response_roundtrip" => {
            // serialiser, code, content type, body, nheaders, (name value)*
            use crate::response::{Response, STATUS_CODE_REASON_PHRASE};
            let ser = ustr(a[0]); let code: i16 = a[1].parse().unwrap(); let ctype = ustr(a[2]); let body = unhex(a[3]); let nh: usize = a[4].parse().unwrap();
            let mut headers = vec![];
            for i in 0..nh { headers.push(Header { name: ustr(a[5 + 2 * i]), value: ustr(a[6 + 2 * i]) }); }
            let list = Response::status_code_reason_phrase_list();
            let reason = list.iter().find(|x| *x.status_code == code).map(|x| x.reason_phrase.to_string()).unwrap_or("?".to_string());
            let _ = STATUS_CODE_REASON_PHRASE.n200_ok;
            let cr = crate::range::ContentRange { unit: "bytes".to_string(), range: crate::range::Range { start: 0, end: body.len() as u64 }, size: body.len().to_string(), body: body.clone(), content_type: ctype };
            let mut resp = Response { http_version: "HTTP/1.1".to_string(), status_code: code, reason_phrase: reason, headers, content_range_list: vec![cr] };
            let raw = if ser == "generate" { resp.generate() } else {
                let req = Request { method: "GET".to_string(), request_uri: "/".to_string(), http_version: "HTTP/1.1".to_string(), headers: vec![], body: vec![] };
                Response::generate_response(resp, req)
            };
            let back = Response::parse(&raw)?;
            let mut out = vec![hex(back.status_code.to_string().as_bytes()), hex(back.reason_phrase.as_bytes())];
            match back.content_range_list.get(0) {
                Some(c) => { out.push(hex(c.content_type.as_bytes())); out.push(hex(&c.body)); out.push(hex(format!("{}-{}/{}", c.range.start, c.range.end, c.size).as_bytes())); }
                None => { out.push(hex(b"<none>")); out.push(hex(b"")); out.push(hex(b"<none>")); }
            }
            out.extend(headers_out(&back.headers));
            Ok(out)
        }
        "json_roundtrip" => {
            // kind, then the value(s): i128 text / bool text / string ; "two" takes string then int
            use crate::json::property::{JSONProperty, JSONValue};
            use crate::core::New;
            let kind = ustr(a[0]);
            let mut list: Vec<(JSONProperty, JSONValue)> = vec![];
            let mut expect: Vec<(String, String)> = vec![];
            let mk = |name: &str, ty: &str| JSONProperty { property_name: name.to_string(), property_type: ty.to_string() };
            if kind == "i128" || kind == "i128-const" {
                let v: i128 = ustr(a[1]).parse().unwrap();
                let mut jv = JSONValue::new(); jv.i128 = Some(v); list.push((mk("k", "i128"), jv)); expect.push(("k".to_string(), v.to_string()));
            } else if kind == "bool" {
                let v = ustr(a[1]) == "true";
                let mut jv = JSONValue::new(); jv.bool = Some(v); list.push((mk("k", "bool"), jv)); expect.push(("k".to_string(), v.to_string()));
            } else if kind == "string" {
                let v = if a.len() > 1 { ustr(a[1]) } else { "".to_string() };
                let mut jv = JSONValue::new(); jv.string = Some(v.clone()); list.push((mk("k", "String"), jv)); expect.push(("k".to_string(), v));
            } else {
                let v: i128 = ustr(a[1]).parse().unwrap(); let s = ustr(a[2]);
                let mut j1 = JSONValue::new(); j1.string = Some(s.clone()); list.push((mk("a", "String"), j1)); expect.push(("a".to_string(), s));
                let mut j2 = JSONValue::new(); j2.i128 = Some(v); list.push((mk("b", "i128"), j2)); expect.push(("b".to_string(), v.to_string()));
            }
            let text = crate::json::object::JSON::to_json_string(list);
            let parsed = crate::json::object::JSON::parse_as_properties(text.clone())?;
            let got: Vec<(String, String)> = parsed.iter().map(|(p, v)| (p.property_name.clone(), if v.string.is_some() { v.string.clone().unwrap() } else { v.to_string() })).collect();
            Ok(vec![hex(if got == expect { b"same" } else { b"differs" }), hex(text.as_bytes()), hex(format!("{:?}", got).as_bytes())])
        }
        "json_array_roundtrip" => {
            // kind (arr-int|arr-bool|arr-string), integer type, items as text
            use crate::json::array::integer::JSONArrayOfIntegers as AI;
            let kind = ustr(a[0]); let ty = ustr(a[1]);
            let items: Vec<String> = a[2..].iter().map(|x| ustr(x)).collect();
            macro_rules! rt { ($t:ty, $to:ident, $from:ident) => {{
                let v: Vec<$t> = items.iter().map(|x| x.parse::<$t>().unwrap()).collect();
                let text = AI::$to(&v)?; let back = AI::$from(text.clone())?;
                (back == v, text)
            }} }
            let (same, text) = if kind == "arr-int" {
                match ty.as_str() {
                    "i8" => rt!(i8, to_json_from_list_i8, parse_as_list_i8), "i16" => rt!(i16, to_json_from_list_i16, parse_as_list_i16),
                    "i32" => rt!(i32, to_json_from_list_i32, parse_as_list_i32), "i64" => rt!(i64, to_json_from_list_i64, parse_as_list_i64),
                    "i128" => rt!(i128, to_json_from_list_i128, parse_as_list_i128), "u8" => rt!(u8, to_json_from_list_u8, parse_as_list_u8),
                    "u16" => rt!(u16, to_json_from_list_u16, parse_as_list_u16), "u32" => rt!(u32, to_json_from_list_u32, parse_as_list_u32),
                    "u64" => rt!(u64, to_json_from_list_u64, parse_as_list_u64), _ => rt!(u128, to_json_from_list_u128, parse_as_list_u128),
                }
            } else if kind == "arr-bool" {
                let v: Vec<bool> = items.iter().map(|x| x == "true").collect();
                let text = crate::json::array::boolean::JSONArrayOfBooleans::to_json_from_list_bool(&v)?;
                let back = crate::json::array::boolean::JSONArrayOfBooleans::parse_as_list_bool(text.clone())?;
                (back == v, text)
            } else {
                let v: Vec<String> = items.clone();
                let text = crate::json::array::string::JSONArrayOfStrings::to_json_from_list_string(&v)?;
                let back = crate::json::array::string::JSONArrayOfStrings::parse_as_list_string(text.clone())?;
                (back == v, text)
            };
            Ok(vec![hex(if same { b"same" } else { b"differs" }), hex(text.as_bytes())])
        }
        "mime" => { Ok(vec![hex(crate::mime_type::MimeType::detect_mime_type(&ustr(a[0])).as_bytes())]) }
        "response_multipart_roundtrip" => {
            use crate::response::Response;
            let ser = ustr(a[0]);
            let mut crs = vec![]; let mut off: u64 = 0;
            let size: usize = a[1..].iter().map(|p| unhex(p).len()).sum::<usize>() + 1;
            for (i, p) in a[1..].iter().enumerate() {
                let b = unhex(p); let l = std::cmp::max(b.len(), 1) as u64;
                crs.push(crate::range::ContentRange { unit: "bytes".to_string(), range: crate::range::Range { start: off, end: off + l - 1 }, size: size.to_string(), body: b, content_type: format!("t/{}", i) });
                off += l;
            }
            let mut resp = Response { http_version: "HTTP/1.1".to_string(), status_code: 206, reason_phrase: "Partial Content".to_string(), headers: vec![], content_range_list: crs };
            let raw = if ser == "generate" { resp.generate() } else {
                let req = Request { method: "GET".to_string(), request_uri: "/".to_string(), http_version: "HTTP/1.1".to_string(), headers: vec![], body: vec![] };
                Response::generate_response(resp, req)
            };
            let back = Response::parse(&raw)?;
            Ok(back.content_range_list.iter().map(|c| hex(&c.body)).collect())
        }
        "uri_roundtrip" => {
            let t = ustr(a[0]);
            let enc = crate::url::URL::percent_encode(&t);
            let dec = crate::url::URL::percent_decode(&enc);
            Ok(vec![hex(enc.as_bytes()), hex(dec.as_bytes())])
        }
        "query_roundtrip" => {
            let mut m = std::collections::HashMap::new();
            m.insert(ustr(a[1]), ustr(a[2]));
            let q = crate::url::URL::build_query(m);
            let parsed = if ustr(a[0]) == "form" { crate::body::form_urlencoded::FormUrlEncoded::parse(q.as_bytes().to_vec())? }
                else if ustr(a[0]) == "target" {
                    let rq = Request { method: "GET".to_string(), request_uri: format!("/form-get-method?{}", q), http_version: "HTTP/1.1".to_string(), headers: vec![], body: vec![] };
                    match rq.get_uri_query()? { Some(m) => m, None => return Err("no query".to_string()) }
                }
                else { crate::url::URL::parse_query(&q) };
            let mut out = vec![hex(q.as_bytes())];
            for (k, v) in parsed { out.push(hex(k.as_bytes())); out.push(hex(v.as_bytes())); }
            Ok(out)
        }
        "process_seq" => {
            // size, then request bytes...: every request is handled by Server::process on this same thread, in order
            let size: i64 = a[0].parse().unwrap();
            let mut out = vec![];
            for r in &a[1..] {
                let mut stream = MockStream { input: unhex(r), pos: 0, output: vec![], writes: vec![], flushes: 0, write_script: vec![], read_err: false, flush_err: false };
                let conn = crate::server::ConnectionInfo {
                    client: crate::server::Address { ip: "127.0.0.1".to_string(), port: 50000 },
                    server: crate::server::Address { ip: "127.0.0.1".to_string(), port: 7878 },
                    request_size: size,
                };
                let _ = crate::server::Server::process(&mut stream, conn, crate::app::App {});
                out.push(hex(&stream.output));
            }
            Ok(out)
        }
        "accept_loop" => {
            // Server::run on a real loopback listener whose accept() fails once with EMFILE (descriptor limit lowered while a
            // connection is pending).  Reply: "returned" if Server::run came back (the accept loop ended), "running" otherwise.
            #[repr(C)] struct RLimit { cur: u64, max: u64 }
            extern "C" { fn setrlimit(resource: i32, rlim: *const RLimit) -> i32; fn getrlimit(resource: i32, rlim: *mut RLimit) -> i32; }
            use std::sync::atomic::{AtomicBool, Ordering};
            use std::sync::Arc;
            let listener = std::net::TcpListener::bind("127.0.0.1:0").map_err(|e| e.to_string())?;
            let addr = listener.local_addr().unwrap();
            let pool = crate::thread_pool::ThreadPool::new(1);
            let _client = std::net::TcpStream::connect(addr).map_err(|e| e.to_string())?;
            let mut old = RLimit { cur: 0, max: 0 };
            unsafe { getrlimit(7, &mut old); }
            let low = RLimit { cur: 0, max: old.max };
            unsafe { setrlimit(7, &low); }
            let returned = Arc::new(AtomicBool::new(false));
            let r2 = returned.clone();
            std::thread::spawn(move || {
                crate::server::Server::run(listener, pool, crate::app::App {});
                r2.store(true, Ordering::SeqCst);
            });
            std::thread::sleep(std::time::Duration::from_millis(700));
            unsafe { setrlimit(7, &old); }
            std::thread::sleep(std::time::Duration::from_millis(300));
            Ok(vec![hex(if returned.load(Ordering::SeqCst) { b"returned" } else { b"running" })])
        }
        "job_reset" => {
            // Server::run with ONE worker on loopback; hostile peers: (1) connect and reset without sending, (2) send half a request
            // and reset, (3) connect and close at once.  Then a well-formed probe request.  Reply: "answered" | "dead".
            use std::io::{Read, Write};
            use std::os::unix::io::AsRawFd;
            #[repr(C)] struct Linger { l_onoff: i32, l_linger: i32 }
            extern "C" { fn setsockopt(fd: i32, level: i32, name: i32, value: *const Linger, len: u32) -> i32; }
            fn reset_on_close(s: &std::net::TcpStream) { let l = Linger { l_onoff: 1, l_linger: 0 }; unsafe { setsockopt(s.as_raw_fd(), 1, 13, &l, 8); } }
            let listener = std::net::TcpListener::bind("127.0.0.1:0").map_err(|e| e.to_string())?;
            let addr = listener.local_addr().unwrap();
            let pool = crate::thread_pool::ThreadPool::new(1);
            std::thread::spawn(move || { crate::server::Server::run(listener, pool, crate::app::App {}); });
            let ms = |n| std::thread::sleep(std::time::Duration::from_millis(n));
            { let c = std::net::TcpStream::connect(addr).map_err(|e| e.to_string())?; reset_on_close(&c); drop(c); ms(300); }
            { let mut c = std::net::TcpStream::connect(addr).map_err(|e| e.to_string())?; let _ = c.write_all(b"GET / HT"); reset_on_close(&c); drop(c); ms(300); }
            { let c = std::net::TcpStream::connect(addr).map_err(|e| e.to_string())?; drop(c); ms(300); }
            let mut c = std::net::TcpStream::connect(addr).map_err(|e| e.to_string())?;
            c.set_read_timeout(Some(std::time::Duration::from_secs(4))).unwrap();
            let _ = c.write_all(b"GET /nothing-here HTTP/1.1\r\nHost: x\r\n\r\n");
            let mut buf = [0u8; 16];
            let n = c.read(&mut buf).unwrap_or(0);
            Ok(vec![hex(if n > 0 { b"answered" } else { b"dead" })])
        }
        "range_parse" => {
            // path, file length (decimal), Range header value -> per part: start end size body
            let len: u64 = a[1].parse().unwrap();
            match crate::range::Range::parse_content_range(&ustr(a[0]), len, &ustr(a[2])) {
                Ok(list) => {
                    let mut out = vec![];
                    for cr in list { out.push(hex(cr.range.start.to_string().as_bytes())); out.push(hex(cr.range.end.to_string().as_bytes())); out.push(hex(cr.size.as_bytes())); out.push(hex(&cr.body)); }
                    Ok(out)
                }
                Err(e) => Err(format!("{} {}", e.status_code_reason_phrase.status_code, e.message))
            }
        }
        "request_generate" => {
            let req = mk_request(&[a[0], a[1], a[2], a[3], a[4]].iter().chain(a[5..].iter()).cloned().collect::<Vec<&str>>());
            Ok(vec![hex(&req.generate())])
        }
        "log_sizes" => {
            let mut crs = vec![];
            for s in a { crs.push(crate::range::ContentRange { unit: "bytes".to_string(), range: crate::range::Range { start: 0, end: 1 }, size: ustr(s), body: vec![b'a'], content_type: "text/plain".to_string() }); }
            let resp = crate::response::Response { http_version: "HTTP/1.1".to_string(), status_code: 206, reason_phrase: "Partial Content".to_string(), headers: vec![], content_range_list: crs };
            let req = Request { method: "GET".to_string(), request_uri: "/a".to_string(), http_version: "HTTP/1.1".to_string(), headers: vec![], body: vec![] };
            let peer = std::net::SocketAddr::new(std::net::IpAddr::V4(std::net::Ipv4Addr::new(127, 0, 0, 1)), 50000);
            let t = std::thread::Builder::new().name("0".to_string()).spawn(move || crate::log::Log::request_response(&req, &resp, &peer)).unwrap();
            match t.join() { Ok(s) => Ok(vec![hex(s.as_bytes())]), Err(_) => { panic!("Log::request_response panicked") } }
        }
        "b64_encode" => {
            match crate::core::base64::Base64::encode(&unhex(a[0])) { Ok(t) => Ok(vec![hex(t.as_bytes())]), Err(e) => Err(e) }
        }
        "b64_decode" => {
            match crate::core::base64::Base64::decode(ustr(a[0])) { Ok(b) => Ok(vec![hex(&b)]), Err(e) => Err(e) }
        }
        "pool" => {
            // args: N, then one token per task: i = instant, r = rendezvous of all r tasks, s = slow (150 ms), p = panics
            // reply: completed-count, per-task execution counts, max observed concurrency
            use std::sync::{Arc, Mutex, Condvar};
            use std::sync::atomic::{AtomicUsize, Ordering};
            use std::time::{Duration, Instant};
            let n: usize = a[0].parse().unwrap();
            // tokens after N may be given raw (i r s p B) or hex-encoded by the python client
            let toks: Vec<String> = a[1..].iter().map(|t| if t.len() == 2 && t.chars().all(|c| c.is_ascii_hexdigit()) { ustr(t) } else { t.to_string() }).collect();
            let backlog = !toks.is_empty() && toks[0] == "B";
            let kinds: Vec<String> = toks[(if backlog { 1 } else { 0 })..].to_vec();
            let nrv = kinds.iter().filter(|k| k.as_str() == "r").count();
            let pool = crate::thread_pool::ThreadPool::new(n);
            let counts: Arc<Vec<AtomicUsize>> = Arc::new((0..kinds.len()).map(|_| AtomicUsize::new(0)).collect());
            let done = Arc::new(AtomicUsize::new(0));
            let running = Arc::new(AtomicUsize::new(0));
            let maxrun = Arc::new(AtomicUsize::new(0));
            let arrived = Arc::new((Mutex::new(0usize), Condvar::new()));
            // backlog mode: occupy every worker with a gate task first, queue the real tasks behind them, then open the gate
            let gate = Arc::new((Mutex::new((0usize, false)), Condvar::new()));
            if backlog {
                for _ in 0..n {
                    let gate = gate.clone();
                    pool.execute(move || {
                        let (m, cv) = &*gate;
                        let mut g = m.lock().unwrap();
                        g.0 += 1; cv.notify_all();
                        let deadline = Instant::now() + Duration::from_millis(3000);
                        while !g.1 {
                            let left = deadline.saturating_duration_since(Instant::now());
                            if left.is_zero() { break; }
                            let (g2, _) = cv.wait_timeout(g, left).unwrap(); g = g2;
                        }
                    });
                }
                let (m, cv) = &*gate;
                let mut g = m.lock().unwrap();
                let deadline = Instant::now() + Duration::from_millis(2000);
                while g.0 < n {
                    let left = deadline.saturating_duration_since(Instant::now());
                    if left.is_zero() { break; }
                    let (g2, _) = cv.wait_timeout(g, left).unwrap(); g = g2;
                }
            }
            for (i, k) in kinds.iter().enumerate() {
                let k = k.clone(); let counts = counts.clone(); let done = done.clone(); let arrived = arrived.clone();
                let running = running.clone(); let maxrun = maxrun.clone();
                pool.execute(move || {
                    counts[i].fetch_add(1, Ordering::SeqCst);
                    let r = running.fetch_add(1, Ordering::SeqCst) + 1;
                    maxrun.fetch_max(r, Ordering::SeqCst);
                    if k == "r" {
                        let (m, cv) = &*arrived;
                        let mut g = m.lock().unwrap();
                        *g += 1;
                        cv.notify_all();
                        let deadline = Instant::now() + Duration::from_millis(2500);
                        while *g < nrv {
                            let left = deadline.saturating_duration_since(Instant::now());
                            if left.is_zero() { running.fetch_sub(1, Ordering::SeqCst); return; }
                            let (g2, _) = cv.wait_timeout(g, left).unwrap();
                            g = g2;
                        }
                    } else if k == "s" {
                        std::thread::sleep(Duration::from_millis(150));
                    } else if k == "p" {
                        running.fetch_sub(1, Ordering::SeqCst);
                        done.fetch_add(1, Ordering::SeqCst);
                        panic!("task panics");
                    }
                    running.fetch_sub(1, Ordering::SeqCst);
                    done.fetch_add(1, Ordering::SeqCst);
                });
            }
            if backlog {
                std::thread::sleep(Duration::from_millis(30));
                let (m, cv) = &*gate;
                let mut g = m.lock().unwrap(); g.1 = true; cv.notify_all();
            }
            let deadline = Instant::now() + Duration::from_millis(4000);
            while done.load(Ordering::SeqCst) < kinds.len() && Instant::now() < deadline { std::thread::sleep(Duration::from_millis(5)); }
            let mut out = vec![hex(format!("{}", done.load(Ordering::SeqCst)).as_bytes())];
            let cs: Vec<String> = counts.iter().map(|c| c.load(Ordering::SeqCst).to_string()).collect();
            out.push(hex(cs.join(",").as_bytes()));
            out.push(hex(format!("{}", maxrun.load(Ordering::SeqCst)).as_bytes()));
            std::mem::forget(pool);
            Ok(out)
        }
        _ => include!("oracle_cmds.rs"),
    }
}

pub fn main() {
    let argv: Vec<String> = std::env::args().collect();
    if argv.len() > 1 && argv[1] == "bootstrap" {
        // the real start-up configuration sequence in this process (argv, cwd and environment are the scenario)
        crate::entry_point::set_default_values();
        crate::entry_point::bootstrap();
        for (k, v) in std::env::vars() { if k.starts_with("RWS_CONFIG") { println!("@@ENV {}={}", k, v); } }
        return;
    }
    let quiet = std::env::var("ORACLE_QUIET").is_ok();
    if quiet { panic::set_hook(Box::new(|_| {})); }
    let stdin = std::io::stdin();
    let mut out = std::io::stdout();
    for line in stdin.lock().lines() {
        let line = line.unwrap();
        let parts: Vec<&str> = line.split_whitespace().collect();
        if parts.is_empty() { continue; }
        let cmd = parts[0].to_string();
        let args: Vec<String> = parts[1..].iter().map(|s| s.to_string()).collect();
        let r = panic::catch_unwind(move || {
            let a: Vec<&str> = args.iter().map(|s| s.as_str()).collect();
            dispatch(&cmd, &a)
        });
        let reply = match r {
            Ok(Ok(v)) => format!("@@ ok {}", v.join(" ")),
            Ok(Err(e)) => format!("@@ err {}", hex(e.as_bytes())),
            Err(p) => {
                let msg = if let Some(s) = p.downcast_ref::<String>() { s.clone() } else if let Some(s) = p.downcast_ref::<&str>() { s.to_string() } else { "panic".to_string() };
                format!("@@ panic {}", hex(msg.as_bytes()))
            }
        };
        writeln!(out, "\n{}", reply.trim_end()).unwrap();
        out.flush().unwrap();
    }
}
