"""Shared driver for the per-property checks: MIR dump of the current /repo tree, oracle build, parallel case
execution, replay-before-report, known-findings handling, evidence files and exit codes.

Exit codes: 0 = property held on everything explored (known findings are printed, not counted);
            1 = a violation that replayed against the real code and is not listed in known_findings.json;
            2 = inconclusive / broken (solver unknown, unmodelled callee, bound exceeded where the check does not
                allow it, counterexample that does not replay, differential mismatch).  Never reported as success.
"""
import json, os, sys, time, subprocess, traceback, random, multiprocessing, hashlib

VERIF = os.path.dirname(os.path.dirname(os.path.abspath(__file__)))
REPO = os.environ.get('VERIF_REPO', '/repo')
sys.path.insert(0, VERIF)

from . import mir as M
from .engine import Executor, State, Unsupported
from . import models as MODELS
from . import envmodels  # noqa: F401  (registers environment models)
from . import models2    # noqa: F401  (second batch of std models, lowest priority)

_G = {}


def _excepthook(tp, val, tb):
    """an internal error of the machinery (oracle or MIR build failure, a bug in a check) is never a verdict: exit 2"""
    import traceback
    traceback.print_exception(tp, val, tb)
    sys.stdout.write('INCONCLUSIVE internal error: %s: %s\n' % (tp.__name__, str(val)[:300]))
    sys.stdout.flush()
    os._exit(2)


sys.excepthook = _excepthook


def tier():
    t = os.environ.get('VERIF_TIER', 'quick')
    return t if t in ('quick', 'thorough') else 'quick'


def seed():
    try: return int(os.environ.get('VERIF_SEED', '0'))
    except ValueError: return 0


def ncpu():
    try: return max(1, int(os.environ.get('VERIF_JOBS', str(min(16, os.cpu_count() or 4)))))
    except ValueError: return 8


class Raw(str):
    """oracle argument passed verbatim (not hex-encoded)"""


class Oracle:
    """line-protocol client for the native oracle binary (see /verif/oracle)"""

    def __init__(s, path): s.path = path

    @staticmethod
    def hx(b):
        if isinstance(b, str): b = b.encode()
        return b.hex() if b else '-'

    @staticmethod
    def unhx(t): return b'' if t == '-' else bytes.fromhex(t)

    def run(s, lines, env=None, cwd=None, timeout=20):
        """lines: list of (cmd, [args bytes|str|int]) ; returns list of (status, [bytes]) ; one process per call"""
        inp = []
        for cmd, args in lines:
            toks = [cmd]
            for a in args:
                if isinstance(a, Raw): toks.append(str(a))
                elif isinstance(a, int): toks.append(str(a))
                else: toks.append(s.hx(a))
            inp.append(' '.join(toks))
        e = {'PATH': os.environ.get('PATH', ''), 'ORACLE_QUIET': '1'}
        if env:
            for k, v in env.items():
                if v is not None: e[k] = v
        try:
            r = subprocess.run([s.path], input=('\n'.join(inp) + '\n').encode(), env=e, cwd=cwd, stdout=subprocess.PIPE,
                               stderr=subprocess.PIPE, timeout=timeout)
        except subprocess.TimeoutExpired:
            return [('timeout', [])] * len(lines)
        out = []
        for ln in r.stdout.decode('latin1').split('\n'):
            if not ln.strip(): continue
            p = ln.split()
            if p[0] == '@@' and len(p) > 1 and p[1] in ('ok', 'err', 'panic'):
                out.append((p[1], [s.unhx(x) for x in p[2:]]))
        while len(out) < len(lines):
            out.append(('crash', [r.stderr[-300:]]))
        return out


def build_oracle(release=False):
    t = time.time()
    r = subprocess.run([sys.executable, os.path.join(VERIF, 'oracle', 'build.py')] + (['--release'] if release else []),
                       stdout=subprocess.PIPE, stderr=subprocess.PIPE, env=dict(os.environ, VERIF_REPO=REPO))
    if r.returncode != 0:
        sys.stderr.write(r.stderr.decode()[-4000:])
        raise RuntimeError('oracle build failed')
    return Oracle(r.stdout.decode().strip().split('\n')[-1]), time.time() - t


def _worker_init():
    pass


class CaseTimeout(Exception):
    pass


def _alarm(signum, frame):
    raise CaseTimeout()


def _run_case(args):
    fn, params, idx = args
    t0 = time.time()
    limit = _G.get('case_timeout')
    import signal
    if limit:
        signal.signal(signal.SIGALRM, _alarm); signal.setitimer(signal.ITIMER_REAL, limit)
    try:
        r = fn(_G['prog'], params)
        r = r or {}
        r.setdefault('status', 'ok')
    except CaseTimeout:
        r = {'status': 'case-timeout', 'error': 'case exceeded %ss' % limit}
    except Unsupported as e:
        r = {'status': 'unsupported', 'error': str(e)[:600], 'trace': traceback.format_exc()[-400:]}
    except Exception as e:   # noqa
        r = {'status': 'error', 'error': '%s: %s' % (type(e).__name__, str(e)[:600]), 'trace': traceback.format_exc()[-600:]}
    if limit: signal.setitimer(signal.ITIMER_REAL, 0)
    r['case'] = params if _jsonable(params) else repr(params)
    r['case_idx'] = idx
    r['wall_s'] = round(time.time() - t0, 3)
    return r


def _jsonable(x):
    try:
        json.dumps(x); return True
    except (TypeError, ValueError):
        return False


class Check:
    def __init__(s, prop_id, title, level='model_checking'):
        s.id = prop_id; s.title = title; s.level = level
        s.t0 = time.time(); s.tier = tier(); s.seed = seed()
        s.rng = random.Random(s.seed)
        s.violations = []     # dicts: {key, site, cls, text, witness, replay:{...}}
        s.known_hits = []
        s.inconclusive = []
        s.notes = []
        s.assumptions = []
        s.samples = []
        s.stats = {'paths': 0, 'queries': 0, 'sat': 0, 'unsat': 0, 'unknown': 0, 'solver_s': 0.0, 'steps': 0, 'cases': 0,
                   'model_hits': 0, 'forks': 0}
        s.used_fns = set(); s.used_models = set()
        s.kinds = {}
        s.diff_cases = 0; s.replays = 0
        s.bounds = {}
        s.extra = {}
        s.prog = None; s.oracle = None
        s.obligations = []   # per obligation summary

    # ---- setup
    def load(s, deps=('url-build-parse', 'url-search-params', 'file-ext'), oracle=True):
        s.prog, s.mir_info = M.load_program(REPO, deps=deps)
        _G['prog'] = s.prog
        if oracle:
            s.oracle, bt = build_oracle()
            s.extra['oracle_build_s'] = round(bt, 2)
        return s.prog

    # ---- running cases
    def run_cases(s, fn, cases, jobs=None, label='', case_timeout=None):
        jobs = jobs or ncpu()
        _G['case_timeout'] = case_timeout
        cases = list(cases)
        order = list(range(len(cases)))
        s.rng.shuffle(order)
        args = [(fn, cases[i], i) for i in order]
        t = time.time()
        if jobs == 1 or len(cases) <= 1:
            results = [_run_case(a) for a in args]
        else:
            ctx = multiprocessing.get_context('fork')
            with ctx.Pool(min(jobs, len(cases)), initializer=_worker_init) as pool:
                results = pool.map(_run_case, args, chunksize=1)
        results.sort(key=lambda r: r['case_idx'])
        for r in results: s.absorb(r, label)
        slow = sorted(results, key=lambda r: -r['wall_s'])[:3]
        s.obligations.append({'label': label or fn.__name__, 'cases': len(cases), 'wall_s': round(time.time() - t, 2),
                              'slowest_cases': [(r['wall_s'], r['case']) for r in slow],
                              'paths': sum(r.get('stats', {}).get('paths', 0) for r in results)})
        return results

    def absorb(s, r, label=''):
        s.stats['cases'] += 1
        for k, v in r.get('stats', {}).items():
            if k in s.stats: s.stats[k] += v
        s.used_fns.update(r.get('used_fns', ())); s.used_models.update(r.get('used_models', ()))
        for k, v in r.get('kinds', {}).items(): s.kinds[k] = s.kinds.get(k, 0) + v
        if r['status'] != 'ok':
            s.inconclusive.append({'label': label, 'case': r['case'], 'status': r['status'], 'error': r.get('error'), 'trace': r.get('trace')})
        for inc in r.get('inconclusive', ()):
            s.inconclusive.append(dict(inc, label=label, case=r['case']))
        for v in r.get('violations', ()):
            v = dict(v); v.setdefault('label', label); v.setdefault('case', r['case'])
            s.violations.append(v)
        for smp in r.get('samples', ()):
            if len(s.samples) < 12: s.samples.append(smp)

    # ---- findings
    def load_known(s):
        p = os.path.join(VERIF, 'known_findings.json')
        try:
            d = json.load(open(p))
        except FileNotFoundError:
            return []
        return [e for e in d.get('findings', []) if e.get('property') == s.id]

    def finish(s, replay_fn=None, vacuity=None):
        """replay violations, apply known findings, write evidence, print verdict lines, exit"""
        known = [e for e in s.load_known() if e.get('status') == 'known']
        reported = []; seen_keys = set()
        # group violations by key so each distinct failing role is replayed/reported once
        groups = {}
        for v in s.violations:
            groups.setdefault(v.get('key') or v.get('text'), []).append(v)
        for key, vs in groups.items():
            v = vs[0]
            rep = None
            if replay_fn is not None:
                for cand in vs[:4]:
                    try:
                        rep = replay_fn(cand)
                    except Exception as e:   # noqa
                        rep = {'reproduced': False, 'detail': 'replay crashed: %s' % e}
                    s.replays += 1
                    if rep and rep.get('reproduced'):
                        v = cand; break
            v['replay'] = rep
            if replay_fn is not None and not (rep and rep.get('reproduced')):
                s.inconclusive.append({'label': v.get('label'), 'status': 'counterexample-did-not-replay', 'error': v.get('text'),
                                       'witness': v.get('witness'), 'replay': rep})
                continue
            match = None
            for e in known:
                if e.get('key') == key:
                    match = e; break
            if match is not None:
                s.known_hits.append({'key': key, 'text': match.get('text', v.get('text')), 'count': len(vs), 'witness': v.get('witness')})
            else:
                reported.append((key, v, len(vs)))
        vac = None
        if vacuity is not None:
            vac = vacuity()
            if vac: s.inconclusive.append({'status': 'vacuity', 'error': vac})
        code = 0
        import shutil
        shutil.rmtree(os.path.join(VERIF, 'replays', s.id), ignore_errors=True)
        os.makedirs(os.path.join(VERIF, 'replays', s.id), exist_ok=True)
        lines = []
        for k in s.known_hits:
            lines.append('KNOWN-FINDING: property=%s %s' % (s.id, k['text']))
        for key, v, n in reported:
            code = 1
            h = hashlib.sha1((key or '').encode()).hexdigest()[:10]
            path = os.path.join(VERIF, 'replays', s.id, '%s.json' % h)
            json.dump({'property': s.id, 'key': key, 'text': v.get('text'), 'witness': v.get('witness'), 'replay': v.get('replay'),
                       'label': v.get('label'), 'case': v.get('case'), 'paths_with_this_violation': n}, open(path, 'w'), indent=1, default=str)
            lines.append('VIOLATION property=%s replay=%s' % (s.id, path))
            lines.append('  %s' % (v.get('text'),))
        if code == 0 and s.inconclusive:
            code = 2
        s.write_evidence(len(reported))
        for ln in lines: print(ln)
        if code == 2:
            print('INCONCLUSIVE property=%s (%d items); first: %s' % (s.id, len(s.inconclusive), json.dumps(s.inconclusive[0], default=str)[:1500]))
        print('%s %s tier=%s seed=%d: %s  cases=%d paths=%d queries=%d (sat %d / unsat %d / unknown %d) solver=%.1fs wall=%.1fs known=%d violations=%d'
              % (s.id, s.title, s.tier, s.seed, {0: 'HOLDS within bounds', 1: 'VIOLATED', 2: 'INCONCLUSIVE'}[code], s.stats['cases'],
                 s.stats['paths'], s.stats['queries'], s.stats['sat'], s.stats['unsat'], s.stats['unknown'], s.stats['solver_s'],
                 time.time() - s.t0, len(s.known_hits), len(reported)))
        sys.stdout.flush()
        sys.exit(code)

    def write_evidence(s, nviol):
        ev = {
            'property_id': s.id, 'tier': s.tier, 'seed': s.seed, 'level': s.level,
            'coverage': {
                'states': max(1, s.stats['paths']),
                'transitions': max(1, s.stats['steps']),
                'traces_validated_against_impl': s.replays + s.diff_cases,
                'samples': s.samples[:12] or ['(no sample recorded)'],
                'explanation': 'states = symbolic paths explored to a terminal state; transitions = MIR statements/terminators executed symbolically; '
                               'traces validated = solver witnesses replayed natively + concrete differential cases (MIR interpreter vs native build of the same sources)',
                'cases': s.stats['cases'], 'queries_discharged': s.stats['queries'], 'sat': s.stats['sat'], 'unsat': s.stats['unsat'],
                'unknown': s.stats['unknown'], 'feasibility_answers_from_cached_model': s.stats['model_hits'],
                'solver_s': round(s.stats['solver_s'], 2), 'forks': s.stats['forks'],
                'terminal_kinds': s.kinds, 'bounds': s.bounds, 'obligation_list': s.obligations,
                'functions_encoded': sorted(s.used_fns)[:400], 'std_models_used': sorted(s.used_models),
                'mir': getattr(s, 'mir_info', None), 'differential_cases': s.diff_cases, 'witness_replays': s.replays,
                'known_findings_hit': s.known_hits, 'inconclusive': s.inconclusive[:10], 'notes': s.notes,
                'exhaustive': False,
            },
            'assumptions': s.assumptions,
            'wall_s': round(time.time() - s.t0, 2),
            'violations': nviol,
        }
        ev['coverage'].update(s.extra)
        os.makedirs(os.path.join(VERIF, 'evidence'), exist_ok=True)
        json.dump(ev, open(os.path.join(VERIF, 'evidence', s.id + '.json'), 'w'), indent=1, default=str)


def new_executor(prog, **kw):
    return Executor(prog, MODELS.REGISTRY, **kw)


def ex_summary(ex):
    return {'stats': {k: ex.stats[k] for k in ('paths', 'queries', 'sat', 'unsat', 'unknown', 'solver_s', 'steps', 'model_hits', 'forks')},
            'used_fns': sorted(ex.used_fns), 'used_models': sorted(ex.used_models)}
