"""MIR text front end: parses `rustc -Zunpretty=mir` output into function bodies.

The dump is regenerated from /repo's working tree on every run (see dump_mir); nothing is
cached across runs.  Only the textual shapes that this nightly prints are understood; any
statement that is not understood is kept as ('unparsed', text) and becomes a hard error if
execution ever reaches it.
"""
import os, re, subprocess, sys, hashlib

NIGHTLY_FLAGS = ['-Zunpretty=mir', '-C', 'debug-assertions=off', '-C', 'overflow-checks=on']


class Fn:
    __slots__ = ('name', 'params', 'ret', 'locals', 'blocks', 'is_const', 'src', 'cleanup', 'nlines', 'crate')

    def __init__(s, name, params, ret, is_const=False):
        s.name = name; s.params = params; s.ret = ret; s.locals = {}; s.blocks = {}
        s.is_const = is_const; s.src = None; s.cleanup = set(); s.nlines = 0; s.crate = None

    def __repr__(s): return f'<Fn {s.name}>'


class ParseError(Exception):
    pass


# ------------------------------------------------------------------ text helpers
def split_top(s, sep=','):
    """split at top-level separators, respecting () [] {} <> and string / char literals"""
    out = []; depth = 0; cur = []; i = 0; n = len(s)
    while i < n:
        c = s[i]
        if c == '"':
            j = i + 1
            while j < n and s[j] != '"':
                if s[j] == '\\': j += 1
                j += 1
            cur.append(s[i:j + 1]); i = j + 1; continue
        if c == "'":
            # char literal ('x' or '\n' or '\u{..}') vs lifetime ('a, '_)
            m = re.match(r"'(\\u\{[0-9a-fA-F]+\}|\\.|[^\\'])'", s[i:])
            if m:
                cur.append(m.group(0)); i += len(m.group(0)); continue
        if c in '([{': depth += 1
        elif c in ')]}': depth -= 1
        elif c == '<':
            depth += 1
        elif c == '>':
            if i > 0 and s[i - 1] in '-=': pass
            else: depth -= 1
        if c == sep and depth == 0:
            out.append(''.join(cur).strip()); cur = []
        else:
            cur.append(c)
        i += 1
    t = ''.join(cur).strip()
    if t: out.append(t)
    return out


def find_matching_open(s, close_idx):
    """index of the '(' matching the ')' at close_idx, skipping string literals (scan backwards is unsafe with
    strings, so scan forward once)"""
    stack = []; i = 0; n = len(s)
    while i < n:
        c = s[i]
        if c == '"':
            j = i + 1
            while j < n and s[j] != '"':
                if s[j] == '\\': j += 1
                j += 1
            i = j + 1; continue
        if c == "'":
            m = re.match(r"'(\\u\{[0-9a-fA-F]+\}|\\.|[^\\'])'", s[i:])
            if m: i += len(m.group(0)); continue
        if c == '(':
            stack.append(i)
        elif c == ')':
            o = stack.pop()
            if i == close_idx: return o
        i += 1
    raise ParseError('unbalanced: ' + s)


_ESC = {'n': 10, 'r': 13, 't': 9, '\\': 92, '0': 0, '"': 34, "'": 39}


def unescape(body):
    """Rust string / byte-string literal body -> bytes"""
    out = bytearray(); i = 0; n = len(body)
    while i < n:
        c = body[i]
        if c == '\\':
            d = body[i + 1]
            if d == 'x':
                out.append(int(body[i + 2:i + 4], 16)); i += 4; continue
            if d == 'u':
                j = body.index('}', i)
                out += chr(int(body[i + 3:j], 16)).encode('utf-8'); i = j + 1; continue
            if d == '\n':
                # line continuation: skip whitespace
                i += 2
                while i < n and body[i] in ' \t\n\r': i += 1
                continue
            out.append(_ESC[d]); i += 2; continue
        out += c.encode('utf-8'); i += 1
    return bytes(out)


# ------------------------------------------------------------------ places / operands
WRAPPER_RE = re.compile(r'^std::(mem::ManuallyDrop|mem::MaybeDangling|mem::MaybeUninit|ptr::Unique|ptr::NonNull)<')


def parse_place(txt):
    """-> (local, proj tuple). proj: ('f',i,ty) ('d',) ('dc',name) ('i',local) ('ci',i,from_end) ('sub',a,b,from_end)"""
    txt = txt.strip()
    if txt.startswith('(') and txt.endswith(')') and find_matching_open(txt, len(txt) - 1) == 0:
        inner = txt[1:-1]
        if inner.startswith('*'):
            l, p = parse_place(inner[1:]); return l, p + (('d',),)
        # field: base.N: Type   -- find the first top-level '.N: ' scanning with depth
        depth = 0; i = 0; n = len(inner); hit = None
        while i < n:
            c = inner[i]
            if c in '([{<': depth += 1
            elif c in ')]}': depth -= 1
            elif c == '>' and inner[i - 1] not in '-=': depth -= 1
            elif depth == 0 and c == '.':
                m = re.match(r'\.(\d+): ', inner[i:])
                if m: hit = (i, int(m.group(1)), i + len(m.group(0))); break
            elif depth == 0 and inner.startswith(' as ', i):
                m = re.match(r' as (\w+)$', inner[i:])
                if m:
                    l, p = parse_place(inner[:i]); return l, p + (('dc', m.group(1)),)
            i += 1
        if hit:
            l, p = parse_place(inner[:hit[0]])
            return l, p + (('f', hit[1], inner[hit[2]:]),)
        raise ParseError('place ' + txt)
    if txt.startswith('*'):
        l, p = parse_place(txt[1:]); return l, p + (('d',),)
    if txt.endswith(']'):
        k = txt.rindex('[')
        idx = txt[k + 1:-1]; l, p = parse_place(txt[:k])
        m = re.match(r'^(_\d+)$', idx)
        if m: return l, p + (('i', idx),)
        m = re.match(r'^(-?)(\d+) of (\d+)$', idx)
        if m: return l, p + (('ci', int(m.group(2)), m.group(1) == '-'),)
        m = re.match(r'^(\d+):(-?)(\d+)$', idx)
        if m: return l, p + (('sub', int(m.group(1)), int(m.group(3)), m.group(2) == '-'),)
        raise ParseError('index ' + txt)
    if re.match(r'^_\d+$', txt): return txt, ()
    m = re.match(r'^(.*)\.(\d+)$', txt)
    if m:
        l, p = parse_place(m.group(1)); return l, p + (('f', int(m.group(2)), None),)
    raise ParseError('place ' + txt)


def parse_operand(txt):
    txt = txt.strip()
    if txt.startswith('copy '): return ('copy', parse_place(txt[5:]))
    if txt.startswith('move '): return ('move', parse_place(txt[5:]))
    if txt.startswith('no_retag copy '): return ('copy', parse_place(txt[14:]))
    if txt.startswith('no_retag move '): return ('move', parse_place(txt[14:]))
    if txt.startswith('const '): return ('const', txt[6:].strip())
    if re.match(r'^[A-Za-z_<][\w:<>&\', \[\]\(\)]*$', txt): return ('const', txt)   # function item used as a value
    raise ParseError('operand ' + txt)


BINOPS = ('AddWithOverflow', 'SubWithOverflow', 'MulWithOverflow', 'AddUnchecked', 'SubUnchecked', 'MulUnchecked',
          'ShlUnchecked', 'ShrUnchecked', 'Add', 'Sub', 'Mul', 'Div', 'Rem', 'BitAnd', 'BitOr', 'BitXor', 'Shl', 'Shr',
          'Eq', 'Ne', 'Lt', 'Le', 'Gt', 'Ge', 'Cmp', 'Offset')
_BIN_RE = re.compile(r'^(' + '|'.join(BINOPS) + r')\((.*)\)$')
_UN_RE = re.compile(r'^(Not|Neg|PtrMetadata)\((.*)\)$')
_CAST_RE = re.compile(r'^(.*) as (.+?) \((\w+)(\(.*\))?\)$')


def parse_rvalue(txt):
    txt = txt.strip()
    if txt.startswith(('copy ', 'move ', 'const ', 'no_retag ')):
        m = _CAST_RE.match(txt)
        if m and not txt.startswith('const "') and not txt.startswith('const b"'):
            try:
                return ('cast', parse_operand(m.group(1)), m.group(2), m.group(3))
            except ParseError:
                pass
        return ('use', parse_operand(txt))
    if txt.startswith('&raw '):
        body = txt[5:]
        mut = body.startswith('mut ')
        body = body[4:] if mut else body[6:]
        return ('rawptr', mut, parse_place(body))
    if txt.startswith('&'):
        body = txt[1:]
        mut = False
        if body.startswith('mut '): mut = True; body = body[4:]
        elif body.startswith('fake shallow '): body = body[13:]
        elif body.startswith('fake '): body = body[5:]
        return ('ref', mut, parse_place(body))
    m = re.match(r'^discriminant\((.*)\)$', txt)
    if m: return ('discr', parse_place(m.group(1)))
    m = re.match(r'^Len\((.*)\)$', txt)
    if m: return ('len', parse_place(m.group(1)))
    m = _BIN_RE.match(txt)
    if m:
        a, b = split_top(m.group(2))
        return ('bin', m.group(1), parse_operand(a), parse_operand(b))
    m = _UN_RE.match(txt)
    if m: return ('un', m.group(1), parse_operand(m.group(2)))
    if txt.startswith('[') and txt.endswith(']'):
        inner = txt[1:-1]
        parts = split_top(inner, ';')
        if len(parts) == 2:
            return ('repeat', parse_operand(parts[0]), parts[1].strip())
        return ('array', tuple(parse_operand(x) for x in split_top(inner)))
    if txt.startswith('(') and txt.endswith(')') and find_matching_open(txt, len(txt) - 1) == 0:
        inner = txt[1:-1].strip()
        items = split_top(inner) if inner else []
        return ('tuple', tuple(parse_operand(x) for x in items))
    if txt.startswith('{closure@') or txt.startswith('{coroutine@'):
        # {closure@src/x.rs:1:2: 3:4}  or with captures "{closure@...} { a: move _1 }"? rustc prints: {closure@..}(..)?
        m = re.match(r'^(\{closure@[^}]*\})(.*)$', txt)
        rest = m.group(2).strip()
        caps = ()
        if rest.startswith('{') and rest.endswith('}'):
            caps = tuple(parse_operand(f[f.index(':') + 1:]) for f in split_top(rest[1:-1].strip()))
        elif rest.startswith('(') and rest.endswith(')'):
            caps = tuple(parse_operand(x) for x in split_top(rest[1:-1]))
        return ('closure', m.group(1), caps)
    # struct aggregate  Name { a: op, b: op }   (Name may contain generics / paths)
    if txt.endswith('}'):
        # find the top-level ' { '
        depth = 0
        for i, c in enumerate(txt):
            if c in '(<[': depth += 1
            elif c in ')]': depth -= 1
            elif c == '>' and txt[i - 1] not in '-=': depth -= 1
            elif c == '{' and depth == 0:
                name = txt[:i].strip(); inner = txt[i + 1:-1].strip()
                names = []; ops = []
                for f in (split_top(inner) if inner else []):
                    k = f.index(':'); names.append(f[:k].strip()); ops.append(parse_operand(f[k + 1:]))
                variant = None
                return ('adt', name, variant, tuple(ops), tuple(names))
    # tuple-like variant / tuple struct:  Path::Variant(ops)  or  Path::<T>::Variant(ops)
    if txt.endswith(')'):
        o = find_matching_open(txt, len(txt) - 1)
        head = txt[:o]; inner = txt[o + 1:-1].strip()
        ops = tuple(parse_operand(x) for x in (split_top(inner) if inner else []))
        return ('adt', head.strip(), None, ops, None)
    # unit variant:  Option::<T>::None  /  unit struct
    if re.match(r'^[\w:<>, &\'\[\]\(\);+*!-]+$', txt) and not txt.startswith(('move ', 'copy ', 'const ')):
        return ('adt', txt, None, (), None)
    raise ParseError('rvalue ' + txt)


_TARGETS_RE = re.compile(r'\[return: bb(\d+), unwind[^\]]*\]$')


def parse_stmt(st):
    """returns AST tuple for one statement/terminator line (without trailing ';')"""
    if st == 'return': return ('return',)
    if st == 'unreachable': return ('unreachable',)
    if st.startswith('resume') or st.startswith('terminate'): return ('resume',)
    if st.startswith('nop') or st.startswith('StorageLive') or st.startswith('StorageDead') or st.startswith('FakeRead') \
            or st.startswith('PlaceMention') or st.startswith('AscribeUserType') or st.startswith('Retag') \
            or st.startswith('Coverage') or st.startswith('ConstEvalCounter') or st.startswith('Deinit') \
            or st.startswith('BackwardIncompatibleDropHint'):
        return ('nop',)
    m = re.match(r'^goto -> bb(\d+)$', st)
    if m: return ('goto', int(m.group(1)))
    m = re.match(r'^(?:falseEdge|falseUnwind) -> \[real: bb(\d+),', st)
    if m: return ('goto', int(m.group(1)))
    m = re.match(r'^switchInt\((.*)\) -> \[(.*)\]$', st)
    if m:
        targets = []; other = None
        for t in split_top(m.group(2)):
            k, b = t.rsplit(': ', 1)
            if k == 'otherwise': other = int(b[2:])
            else: targets.append((int(k), int(b[2:])))
        return ('switch', parse_operand(m.group(1)), tuple(targets), other)
    m = re.match(r'^drop\((.*)\) -> \[return: bb(\d+), unwind[^\]]*\]$', st)
    if m: return ('drop', parse_place(m.group(1)), int(m.group(2)))
    if st.startswith('assert('):
        m = re.match(r'^assert\((!?)(.*?), (".*)\) -> \[success: bb(\d+), unwind[^\]]*\]$', st)
        if m:
            return ('assert', m.group(1) == '!', parse_operand(m.group(2)), m.group(3), int(m.group(4)))
        raise ParseError('assert ' + st)
    m = re.match(r'^discriminant\((.*)\) = (\d+)$', st)
    if m: return ('setdiscr', parse_place(m.group(1)), int(m.group(2)))
    # call with destination
    mt = _TARGETS_RE.search(st)
    ret_bb = None; body = None
    if mt:
        ret_bb = int(mt.group(1)); body = st[:mt.start()].rstrip()
        if body.endswith('->'): body = body[:-2].rstrip()
    else:
        m2 = re.search(r' -> (unwind [a-z]+|unwind: bb\d+|\[.*\])$', st)
        if m2 and st[:m2.start()].rstrip().endswith(')') and ' = ' in st:
            body = st[:m2.start()].rstrip()
    if body is not None and body.endswith(')'):
        # dest = callee(args)
        k = find_top_assign(body)
        if k >= 0:
            dest = body[:k].strip(); call = body[k + 3:].strip()
            o = find_matching_open(call, len(call) - 1)
            callee = call[:o].strip(); argtxt = call[o + 1:-1].strip()
            args = tuple(parse_operand(a) for a in (split_top(argtxt) if argtxt else []))
            if callee.startswith(('move ', 'copy ')):
                callee_v = ('indirect', parse_operand(callee))
            else:
                callee_v = callee
            return ('call', parse_place(dest), callee_v, args, ret_bb)
    k = find_top_assign(st)
    if k >= 0:
        return ('assign', parse_place(st[:k]), parse_rvalue(st[k + 3:]))
    raise ParseError('stmt ' + st)


def find_top_assign(s):
    """index of the first top-level ' = ' (outside parentheses/strings)"""
    depth = 0; i = 0; n = len(s)
    while i < n:
        c = s[i]
        if c == '"':
            j = i + 1
            while j < n and s[j] != '"':
                if s[j] == '\\': j += 1
                j += 1
            i = j + 1; continue
        if c in '([{': depth += 1
        elif c in ')]}': depth -= 1
        elif depth == 0 and s.startswith(' = ', i): return i
        i += 1
    return -1


# ------------------------------------------------------------------ whole-file parsing
_FN_RE = re.compile(r'^fn (.+?)\((.*)\) -> (.+) \{$')
_CONST_BODY_RE = re.compile(r'^(?:const|static(?: mut)?) (.+?): (.+) = \{$')
_CONST_LINE_RE = re.compile(r'^(?:const|static(?: mut)?) (.+?): (.+?) = (const .+|.+);$')
_IMPL_RE = re.compile(r'<impl at ([^>]+?):(\d+):\d+: \d+:\d+>')


def _const_item(line):
    """`const NAME: TY = {`  or  `const NAME: TY = VALUE;`  -> (name, ty, value|None)"""
    m = re.match(r'^(?:const|static(?: mut)?) ', line)
    if not m: return None
    rest = line[m.end():]
    depth = 0; k = -1
    for i, c in enumerate(rest):
        if c in '<([': depth += 1
        elif c in ')]': depth -= 1
        elif c == '>' and rest[i - 1] not in '-=': depth -= 1
        elif depth == 0 and rest.startswith(': ', i): k = i; break
    if k < 0: return None
    name = rest[:k]; tail = rest[k + 2:]
    j = find_top_assign(tail)
    if j < 0: return None
    ty = tail[:j]; val = tail[j + 3:]
    if val == '{': return name, ty, None
    if val.endswith(';'): return name, ty, val[:-1]
    return None


class Program:
    def __init__(s):
        s.fns = {}       # canonical name -> Fn
        s.alias = {}     # user-facing name -> canonical name
        s.crate_files = {}
        s.field_names = {}   # struct type name -> tuple of field names (learnt from aggregates)
        s.src_digest = {}
        s.dups = []
        s.crate_fns = {}; s.crate_alias = {}

    def get(s, name, crate=None):
        if crate is not None:
            cf = s.crate_fns.get(crate)
            if cf is not None:
                f = cf.get(name)
                if f is not None: return f
                a = s.crate_alias[crate].get(name)
                if a is not None: return cf[a]
                if not name.startswith('<') and '::' in name:
                    segs = name.split('::')
                    for k in range(1, len(segs)):
                        t = '::'.join(segs[k:])
                        f = cf.get(t)
                        if f is None:
                            a = s.crate_alias[crate].get(t)
                            f = cf[a] if a is not None else None
                        if f is not None and f.is_const: return f
        f = s.fns.get(name)
        if f is not None: return f
        a = s.alias.get(name)
        if a is not None: return s.fns[a]
        return None


def _impl_alias(name, root, cache):
    """replace `<impl at file:line:..>` by the implemented type (and trait) read from the source"""
    def rep(m):
        path = m.group(1); line = int(m.group(2))
        full = path if os.path.isabs(path) else os.path.join(root, path)
        key = (full, line)
        if key not in cache:
            try:
                lines = open(full, encoding='utf-8', errors='replace').read().split('\n')
                txt = lines[line - 1]
                # derive attribute: `#[derive(PartialEq, Eq, Clone, Debug)]` -> impl for the item below
                cache[key] = txt
                cache[(full, 'lines')] = lines
            except OSError:
                cache[key] = None
        return '\0%s\0%d\0' % (full, line)
    return _IMPL_RE.sub(rep, name)


def parse_program(text, root, prog=None, crate=None):
    prog = prog or Program()
    glob_fns, glob_alias = prog.fns, prog.alias
    prog.fns = {}; prog.alias = {}
    try:
        _parse_program(text, root, prog, crate)
    finally:
        loc_fns, loc_alias = prog.fns, prog.alias
        prog.fns, prog.alias = glob_fns, glob_alias
    for f in loc_fns.values(): f.crate = crate
    prog.crate_fns[crate] = loc_fns; prog.crate_alias[crate] = loc_alias
    for k, v in loc_fns.items():
        if k in prog.fns: prog.dups.append(k)
        else: prog.fns[k] = v
    for k, v in loc_alias.items():
        if k not in prog.alias and v in prog.fns and prog.fns[v] is loc_fns[v]: prog.alias[k] = v
    return prog


def _parse_program(text, root, prog, crate):
    cur = None; bb = None; lines = text.split('\n'); i = 0; n = len(lines)
    src_cache = {}
    new_names = []
    while i < n:
        line = lines[i]; i += 1
        if cur is None:
            m = _FN_RE.match(line)
            if m:
                params = []
                for p in (split_top(m.group(2)) if m.group(2).strip() else []):
                    k = p.index(':'); params.append((p[:k].strip(), p[k + 1:].strip()))
                cur = Fn(m.group(1), params, m.group(3)); prog.fns[cur.name] = cur; new_names.append(cur.name); bb = None
                continue
            ci = _const_item(line)
            if ci is not None:
                cname, cty, cval = ci
                if cname in prog.fns: prog.dups.append(cname)
                if cval is None:
                    cur = Fn(cname, [], cty, is_const=True); prog.fns[cur.name] = cur; new_names.append(cur.name); bb = None
                else:
                    f = Fn(cname, [], cty, is_const=True)
                    f.locals['_0'] = cty
                    f.blocks[0] = [('assign', ('_0', ()), parse_rvalue(cval)), ('return',)]
                    prog.fns[f.name] = f; new_names.append(f.name)
            continue
        cur.nlines += 1
        if line.startswith('}'):
            cur = None; continue
        st = line.strip()
        if not st or st.startswith('//') or st.startswith('debug ') or st.startswith('scope ') or st == '}':
            if st == '}' and bb is not None and line.startswith('    }'): bb = None
            continue
        m = re.match(r'^let (mut )?(_\d+): (.+);$', st)
        if m and bb is None:
            cur.locals[m.group(2)] = m.group(3); continue
        m = re.match(r'^bb(\d+)( \(cleanup\))?: \{$', st)
        if m:
            bb = []; cur_bb = int(m.group(1)); cur.blocks[cur_bb] = bb
            if m.group(2): cur.cleanup.add(cur_bb)
            continue
        if bb is not None:
            # statements may span lines only inside string literals (rustc escapes newlines), so one line = one stmt
            s2 = st[:-1] if st.endswith(';') else st
            if cur_bb in cur.cleanup:
                if not bb: bb.append(('cleanup_stmt',))
                continue
            try:
                bb.append(parse_stmt(s2))
            except (ParseError, ValueError, IndexError, AttributeError) as e:
                bb.append(('unparsed', s2, str(e)))
    # aliases for impl items
    for name in new_names:
        if '<impl at ' not in name: continue
        # module prefix before <impl at ...>
        def rep(m):
            path = m.group(1); line = int(m.group(2))
            full = path if os.path.isabs(path) else os.path.join(root, path)
            try:
                src = src_cache.get(full)
                if src is None:
                    src = open(full, encoding='utf-8', errors='replace').read().split('\n'); src_cache[full] = src
            except OSError:
                return m.group(0)
            txt = src[line - 1]
            col = int(re.search(r':(\d+): \d+:\d+>', m.group(0)).group(1))
            mm = re.match(r'^\s*(?:unsafe\s+)?impl(?:<[^>]*>)?\s+(?:([\w:<>]+)\s+for\s+)?([\w:<>&\']+)', txt)
            if mm:
                ty = mm.group(2); tr = mm.group(1)
                return ('<%s as %s>' % (ty, tr)) if tr else ty
            if '#[derive' in txt:
                # find the item the derive applies to
                seg = txt[col - 1:]
                trm = re.match(r'(\w+)', seg)
                tr = trm.group(1) if trm else '?'
                j = line
                while j < len(src) and not re.match(r'^\s*(pub(\([a-z]+\))?\s+)?(struct|enum)\s+(\w+)', src[j]): j += 1
                if j < len(src):
                    ty = re.match(r'^\s*(pub(\([a-z]+\))?\s+)?(struct|enum)\s+(\w+)', src[j]).group(4)
                    return '<%s as %s>' % (ty, tr)
            return m.group(0)
        user = _IMPL_RE.sub(rep, name)
        if user != name:
            # `module::Type::item` and also `Type::item` (call sites omit the module path for methods)
            prog.alias.setdefault(user, name)
            mm = re.match(r'^((?:\w+::)+)(<.*|[A-Z]\w*::.*)$', user)
            if mm:
                prog.alias.setdefault(mm.group(2), name)
    for name in new_names:
        if '{closure#' in name and prog.fns[name].params:
            mm = re.search(r'(\{closure@[^}]*\})', prog.fns[name].params[0][1])
            if mm: prog.alias.setdefault(mm.group(1), name)
    for name in new_names:
        # functions in modules: call sites print only the last path segment(s) for free functions
        short = name.split('::')
        if '<' not in name and len(short) > 1:
            for k in range(1, len(short)):
                prog.alias.setdefault('::'.join(short[k:]), name)
    return prog


def learn_field_names(prog):
    for f in prog.fns.values():
        for blk in f.blocks.values():
            for st in blk:
                if st[0] == 'assign' and st[2][0] == 'adt' and st[2][4]:
                    prog.field_names.setdefault(st[2][1], st[2][4])
                    prog.field_names.setdefault(st[2][1].split('::')[-1], st[2][4])


def learn_user_enums(prog, src_root, crate='rws'):
    """enum definitions of the crate, read from its sources: name -> variant names in declaration order (= discriminants for
    enums without explicit values).  Needed for `discriminant(_x)` / aggregates of user-defined enums."""
    import glob
    enums = getattr(prog, 'user_enums', None)
    if enums is None: enums = prog.user_enums = {}
    for path in glob.glob(os.path.join(src_root, '**', '*.rs'), recursive=True):
        try: txt = open(path, encoding='utf-8', errors='replace').read()
        except OSError: continue
        txt = re.sub(r'//[^\n]*', '', txt)
        txt = re.sub(r'/\*.*?\*/', '', txt, flags=re.S)
        for mm in re.finditer(r'\benum\s+(\w+)\s*(<[^{]*>)?\s*\{', txt):
            name = mm.group(1); i = mm.end(); depth = 1; j = i
            while j < len(txt) and depth:
                if txt[j] in '{(<[': depth += 1
                elif txt[j] in '})]': depth -= 1
                elif txt[j] == '>' and txt[j - 1] not in '-=': depth -= 1
                j += 1
            body = txt[i:j - 1]
            variants = []; d = 0; cur = ''
            for ch in body:
                if ch in '{(<[': d += 1
                elif ch in '})]' or (ch == '>'): d -= 1
                if ch == ',' and d == 0: variants.append(cur); cur = ''
                else: cur += ch
            if cur.strip(): variants.append(cur)
            names = []
            explicit = False
            for v in variants:
                v = re.sub(r'#\[[^\]]*\]', '', v).strip()
                mv = re.match(r'^(\w+)', v)
                if mv: names.append(mv.group(1))
                if re.search(r'=\s*-?\d', v): explicit = True
            if names and not explicit and name not in ('Option', 'Result'): enums[name] = names
    return enums


def dump_mir(repo, scratch, package=None, timeout=600):
    """run rustc on the current working tree of `repo`; returns MIR text.  `scratch` is the cargo target dir."""
    env = dict(os.environ, CARGO_NET_OFFLINE='true', CARGO_TARGET_DIR=scratch)
    cmd = ['cargo', '+nightly', 'rustc', '--offline', '--manifest-path', os.path.join(repo, 'Cargo.toml')]
    if package: cmd += ['-p', package]
    else: cmd += ['--bin', 'rws']
    cmd += ['--'] + NIGHTLY_FLAGS
    # force rustc to run even when cargo thinks the unit is fresh (a fresh unit prints nothing):
    # drop the unit's fingerprint in the scratch target dir; /repo itself is never touched
    import glob, shutil
    pk = (package or 'rws').replace('-', '[-_]')
    for d in glob.glob(os.path.join(scratch, 'debug', '.fingerprint', pk + '-*')):
        shutil.rmtree(d, ignore_errors=True)
    r = subprocess.run(cmd, env=env, stdout=subprocess.PIPE, stderr=subprocess.PIPE, timeout=timeout)
    out = r.stdout.decode('utf-8', errors='replace')
    if r.returncode != 0 or 'fn ' not in out:
        sys.stderr.write(r.stderr.decode('utf-8', errors='replace')[-4000:])
        raise RuntimeError('MIR dump failed for %s (exit %d)' % (package or 'rws', r.returncode))
    return out


def dep_dir(name_prefix):
    base = os.path.expanduser('~/.cargo/registry/src')
    for d in os.listdir(base):
        for e in sorted(os.listdir(os.path.join(base, d))):
            if e.startswith(name_prefix): return os.path.join(base, d, e)
    return None


def load_program(repo='/repo', scratch=None, deps=('url-build-parse', 'url-search-params', 'file-ext'), extra=()):
    """dump + parse rws and the requested dependency crates.  Returns (Program, info dict)."""
    import time
    scratch = scratch or os.environ.get('MIRSE_SCRATCH') or '/root/.cache/mirse-target'
    os.makedirs(scratch, exist_ok=True)
    t0 = time.time()
    prog = Program(); info = {'mir_lines': {}, 'mir_sha256': {}}
    import fcntl
    lock = open(os.path.join(scratch, '.mirse.lock'), 'w')
    fcntl.flock(lock, fcntl.LOCK_EX)      # checks may run concurrently: one MIR dump at a time in the shared scratch target dir
    try:
        return _load_program_locked(repo, scratch, deps, prog, info, t0)
    finally:
        fcntl.flock(lock, fcntl.LOCK_UN); lock.close()


def _load_program_locked(repo, scratch, deps, prog, info, t0):
    import time
    txt = dump_mir(repo, scratch)
    parse_program(txt, repo, prog, 'rws')
    learn_user_enums(prog, os.path.join(repo, 'src'))
    info['mir_lines']['rws'] = txt.count('\n'); info['mir_sha256']['rws'] = hashlib.sha256(txt.encode()).hexdigest()[:16]
    for d in deps:
        t = dump_mir(repo, scratch, package=d)
        root = dep_dir(d + '-')
        parse_program(t, root or repo, prog, d)
        info['mir_lines'][d] = t.count('\n'); info['mir_sha256'][d] = hashlib.sha256(t.encode()).hexdigest()[:16]
    learn_field_names(prog)
    info['dump_s'] = round(time.time() - t0, 2)
    info['functions'] = len(prog.fns)
    return prog, info


if __name__ == '__main__':
    prog, info = load_program()
    print(info)
    bad = 0
    for f in prog.fns.values():
        for b, blk in f.blocks.items():
            for st in blk:
                if st[0] == 'unparsed':
                    bad += 1
                    if bad < 40: print('UNPARSED', f.name[:60], '|', st[1][:160], '|', st[2][:80])
    print('unparsed statements:', bad)
    print('aliases:', len(prog.alias)); print('duplicate const names:', prog.dups)
