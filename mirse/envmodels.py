"""Environment models: process environment, clock, filesystem, transport.  Each is nondeterministic and constrained
only by its documented contract; the harness seeds the `world` of the initial state.

world keys
  'env'   : dict  name(bytes) -> SymStr | None (unset).  A name that is absent from the dict is a hard error
            (the harness must say what every variable the code reads may hold).
  'fs'    : finite symbolic filesystem, see class FS
  'fslog' : tuple of (op, path SymStr) in call order
  'mut'   : tuple of (callee, where) -- file-mutating primitives reached (never modelled; terminal)
"""
import re
import z3
from .sym import *
from .engine import *
from .models import model, D, as_str, opaque_msg, ForkStore, usize


def env_get(st, name):
    env = st.world.get('env')
    if env is None: raise Unsupported('environment read of %r but the harness seeded no env model' % name)
    if name not in env: raise Unsupported('environment variable %r is not described by the harness' % name)
    return env[name]


@model(r'^var$', r'^std::env::var$', r'^env::var$')
def m_env_var(ex, st, c):
    name = as_str(ex, st, c.args[0]).concrete()
    if name is None: raise Unsupported('env::var with symbolic name')
    st.log(('env.read', name.decode()))
    v = env_get(st, name)
    if v is None: return Err(Enum('VarError', 'NotPresent', ()))
    if isinstance(v, tuple):
        # (present: z3 Bool, value)
        present, val = v
        return Fork([(present, Ok(val)), (b_not(present), Err(Enum('VarError', 'NotPresent', ())))])
    return Ok(v)


@model(r'^set_var$', r'^std::env::set_var$', r'^env::set_var$')
def m_env_set_var(ex, st, c):
    name = as_str(ex, st, c.args[0]).concrete()
    if name is None: raise Unsupported('env::set_var with symbolic name')
    val = as_str(ex, st, c.args[1])
    env = dict(st.world.get('env') or {})
    env[name] = val
    st.world['env'] = env
    st.log(('env.write', name.decode()))
    return UNIT


@model(r'^remove_var$', r'^std::env::remove_var$')
def m_env_remove_var(ex, st, c):
    name = as_str(ex, st, c.args[0]).concrete()
    env = dict(st.world.get('env') or {}); env[name] = None; st.world['env'] = env
    st.log(('env.write', name.decode()))
    return UNIT
