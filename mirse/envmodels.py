"""Environment models: process environment, clock, filesystem, transport.  Each is nondeterministic and constrained
only by its documented contract; the harness seeds the `world` of the initial state.

world keys
  'env'   : dict  name(bytes) -> SymStr | None (unset).  A name that is absent from the dict is a hard error
            (the harness must say what every variable the code reads may hold).
  'fs'    : finite symbolic filesystem, see class FS
  'fslog' : tuple of (op, path SymStr) in call order
  'mut'   : tuple of (callee, where) -- file-mutating primitives reached (never modelled; terminal)
"""
import re
import z3
from .sym import *
from .engine import *
from .models import model, D, as_str, opaque_msg, ForkStore, usize, LazyR, _WithStore


def env_get(st, name):
    env = st.world.get('env')
    if env is None: raise Unsupported('environment read of %r but the harness seeded no env model' % name)
    if name not in env: raise Unsupported('environment variable %r is not described by the harness' % name)
    return env[name]


@model(r'^var$', r'^std::env::var$', r'^env::var$')
def m_env_var(ex, st, c):
    name = as_str(ex, st, c.args[0]).concrete()
    if name is None: raise Unsupported('env::var with symbolic name')
    st.log(('env.read', name.decode()))
    v = env_get(st, name)
    if v is None: return Err(Enum('VarError', 'NotPresent', ()))
    if isinstance(v, tuple):
        # (present: z3 Bool, value)
        present, val = v
        return Fork([(present, Ok(val)), (b_not(present), Err(Enum('VarError', 'NotPresent', ())))])
    return Ok(v)


@model(r'^set_var$', r'^std::env::set_var$', r'^env::set_var$')
def m_env_set_var(ex, st, c):
    name = as_str(ex, st, c.args[0]).concrete()
    if name is None: raise Unsupported('env::set_var with symbolic name')
    val = as_str(ex, st, c.args[1])
    env = dict(st.world.get('env') or {})
    env[name] = val
    st.world['env'] = env
    st.log(('env.write', name.decode()))
    return UNIT


@model(r'^remove_var$', r'^std::env::remove_var$')
def m_env_remove_var(ex, st, c):
    name = as_str(ex, st, c.args[0]).concrete()
    env = dict(st.world.get('env') or {}); env[name] = None; st.world['env'] = env
    st.log(('env.write', name.decode()))
    return UNIT


# ------------------------------------------------------------------ finite symbolic filesystem
K_ABSENT, K_FILE, K_DIR = 0, 1, 2
ROOT = b'/r'


class FsEntry:
    """kind / content / mtime describe what the path resolves to (symlinks followed, as metadata / open see it); `link` says that
    the last component is itself a symbolic link whose text is `target` (only in filesystems created with symlinks=True)"""
    __slots__ = ('path', 'kind', 'content', 'mtime', 'idx', 'link', 'target')

    def __init__(s, path, kind, content, mtime, idx, link=None, target=None):
        s.path = path; s.kind = kind; s.content = content; s.mtime = mtime; s.idx = idx; s.link = link; s.target = target


def skey(s):
    """structural identity of a SymStr (z3 terms are hash-consed, so equal ids = same term while both are alive)"""
    return tuple((a.ln if isinstance(a.ln, int) else ('t', a.ln.get_id()),
                  tuple(b if isinstance(b, int) else ('t', b.get_id()) for b in a.bs)) for a in s.flat_segs())


def fs_lookup(ex, st, path, op):
    """entry for `path` (SymStr).  Logs the access.  Entries are created lazily; two entries whose paths are equal as
    strings are constrained to be the same object (kind, content, mtime)."""
    fs = st.world.get('fs')
    if fs is None: raise Unsupported('filesystem access (%s) but the harness seeded no fs model' % op)
    st.world['fslog'] = st.world.get('fslog', ()) + ((op, path),)
    cfg = fs['cfg']; entries = fs['entries']
    pc = path.concrete()
    key = skey(path)
    for e in entries:
        if e.path is path: return e
        if pc is not None and e.path.concrete() == pc: return e
        if skey(e.path) == key: return e
    i = len(entries)
    if cfg.get('shared_names'):
        # variable names derived from the path expression itself, so that separate explorations over the same request
        # symbols talk about the same filesystem
        import hashlib
        f_ = path.flat()
        ser = '|'.join([str(f_.ln) if isinstance(f_.ln, int) else f_.ln.sexpr()] + [str(b) if isinstance(b, int) else b.sexpr() for b in f_.bs])
        tag = 'fsx_' + hashlib.sha1(ser.encode()).hexdigest()[:12]
        kind = z3.BitVec(tag + '_kind', 2)
        cons = [z3.ULE(kind, 2)]
        content = SymStr.fresh(tag + '_data', cfg['content_cap'], cons, stable_name=True)
        mtime = z3.BitVec(tag + '_mtime', 128)
    else:
        tag = '%s%d' % (fs.get('tag', 'fs'), i)
        kind = z3.BitVec(ex.fresh(tag + '_kind'), 2)
        cons = [z3.ULE(kind, 2)]
        content = SymStr.fresh(ex.fresh(tag + '_data'), cfg['content_cap'], cons)
        mtime = z3.BitVec(ex.fresh(tag + '_mtime'), 128)
    cons.append(z3.ULT(mtime, 1000000))
    link = target = None
    if cfg.get('symlinks'):
        # the last component may be a symbolic link to a sibling name (relative target without separators, 1 byte from {a, b});
        # a dangling link behaves like an absent path and is not distinguished
        link = z3.Bool((tag if cfg.get('shared_names') else ex.fresh(tag)) + '_link')
        target = SymStr.fresh((tag if cfg.get('shared_names') else ex.fresh(tag)) + '_tgt', 1, cons, exact_len=1, alphabet=[0x61, 0x62], stable_name=bool(cfg.get('shared_names')))
        cons.append(z3.Implies(link, kind != K_ABSENT))
    if cfg.get('fixed'):
        # concrete tree given by the harness: dict path bytes -> ('file', bytes) | ('dir',)
        raise Unsupported('fixed tree lookups are resolved before reaching here')
    ent = FsEntry(path, kind, content, mtime, i, link, target)
    for e in entries:
        same = path.eq(e.path)
        if same is False: continue
        cons.append(z3.Implies(zb(same), z3.And(kind == e.kind, zb(content.eq(e.content)), mtime == e.mtime)))
        if link is not None and e.link is not None:
            cons.append(z3.Implies(zb(same), z3.And(link == e.link, zb(target.eq(e.target)))))
    hook = cfg.get('on_new')
    if hook is not None: cons.extend(hook(ent))
    st.pc.extend(cons)
    st.model = None
    st.world['fs'] = {'cfg': cfg, 'entries': entries + (ent,), 'tag': fs.get('tag', 'fs')}
    return ent


def fs_concrete_lookup(st, path):
    tree = st.world['fs']['cfg']['fixed']
    p = path.concrete()
    if p is None: raise Unsupported('symbolic path against a concrete tree')
    return tree.get(p)


def new_fs(content_cap=4, tag='fs', on_new=None, fixed=None, shared_names=False, symlinks=False, read_may_fail=False):
    return {'cfg': {'content_cap': content_cap, 'on_new': on_new, 'fixed': fixed, 'shared_names': shared_names, 'symlinks': symlinks, 'read_may_fail': read_may_fail}, 'entries': (), 'tag': tag}


def io_error(): return Opaque('std::io::Error')


@model(r'^current_dir$', r'^std::env::current_dir$', r'^env::current_dir$')
def m_current_dir(ex, st, c):
    return Ok(SymStr.const(st.world.get('cwd', ROOT)))


@model(r'^Path::to_str$', r'^std::path::Path::to_str$', r'^OsStr::to_str$')
def m_path_to_str(ex, st, c): return Some(D(ex, st, c.args[0]))


def _fixed_entry(ex, st, path, op):
    """concrete-tree mode used by differential validation"""
    st.world['fslog'] = st.world.get('fslog', ()) + ((op, path),)
    p = path.concrete()
    if p is None: raise Unsupported('symbolic path against a concrete tree')
    import posixpath
    tree = st.world['fs']['cfg']['fixed']
    norm = posixpath.normpath(p.decode('latin1')).encode('latin1')
    if p.endswith(b'/') and norm in tree and tree[norm][0] == 'file': return None    # "file/" -> ENOTDIR
    # every intermediate component must be a directory (a/../b with a absent -> ENOENT)
    parts = p.decode('latin1').split('/')
    cur = ''
    for seg in parts[1:-1]:
        if seg in ('', '.'): continue
        if seg == '..':
            cur = posixpath.dirname(cur) or ''
            continue
        cur = cur + '/' + seg
        t = tree.get(cur.encode('latin1'))
        if t is None or t[0] != 'dir': return None
    t = tree.get(norm)
    if t is None: return None
    if t[0] == 'dir': return FsEntry(path, K_DIR, SymStr(()), 1, -1)
    return FsEntry(path, K_FILE, SymStr.const(t[1]), t[2] if len(t) > 2 else 1, -1)


def lookup(ex, st, path, op):
    fs = st.world.get('fs')
    if fs is not None and fs['cfg'].get('fixed') is not None:
        e = _fixed_entry(ex, st, path, op)
        return e if e is not None else FsEntry(path, K_ABSENT, SymStr(()), 0, -1)
    return fs_lookup(ex, st, path, op)


def kind_is(e, k):
    if isinstance(e.kind, int): return e.kind == k
    return e.kind == k


@model(r'^std::fs::metadata$', r'^metadata$', r'^fs::metadata$', r'^std::fs::symlink_metadata$', r'^fs::symlink_metadata$', r'^symlink_metadata$')
def m_fs_metadata(ex, st, c):
    e = lookup(ex, st, as_str(ex, st, c.args[0]), 'metadata')
    absent = kind_is(e, K_ABSENT)
    nofollow = 'symlink_metadata' in c.callee and e.link is not None
    return Fork([(absent, Err(io_error())), (b_not(absent), Ok(Opaque('MetadataNF' if nofollow else 'Metadata', e)))])


@model(r'^File::open$', r'^std::fs::File::open$')
def m_file_open(ex, st, c):
    e = lookup(ex, st, as_str(ex, st, c.args[0]), 'open')
    absent = kind_is(e, K_ABSENT)
    return Fork([(absent, Err(io_error())), (b_not(absent), Ok(Opaque('File', (e, 0))))])


@model(r'^File::metadata$', r'^std::fs::File::metadata$')
def m_file_metadata(ex, st, c):
    f = D(ex, st, c.args[0]); return Ok(Opaque('Metadata', f.data[0]))


@model(r'^Metadata::is_dir$', r'^std::fs::Metadata::is_dir$')
def m_md_is_dir(ex, st, c):
    md = D(ex, st, c.args[0]); r = kind_is(md.data, K_DIR)
    return b_and(r, b_not(md.data.link)) if md.tag == 'MetadataNF' else r


@model(r'^Metadata::is_file$', r'^std::fs::Metadata::is_file$')
def m_md_is_file(ex, st, c):
    md = D(ex, st, c.args[0]); r = kind_is(md.data, K_FILE)
    return b_and(r, b_not(md.data.link)) if md.tag == 'MetadataNF' else r


@model(r'^Metadata::len$', r'^std::fs::Metadata::len$')
def m_md_len(ex, st, c):
    e = D(ex, st, c.args[0]).data
    # directories report an arbitrary size; the code only reads len() of regular files
    return Int('u64', e.content.length())


@model(r'^Metadata::file_type$')
def m_md_file_type(ex, st, c):
    md = D(ex, st, c.args[0])
    return Opaque('FileTypeNF' if md.tag == 'MetadataNF' else 'FileType', md.data)


@model(r'^FileType::is_symlink$', r'^std::fs::FileType::is_symlink$')
def m_ft_is_symlink(ex, st, c):
    ft = D(ex, st, c.args[0])
    if ft.tag == 'FileTypeNF' and ft.data.link is not None: return ft.data.link
    return False     # without symlinks=True the model has no symbolic links (stated per check)


@model(r'^Path::is_file$', r'^std::path::Path::is_file$')
def m_path_is_file(ex, st, c):
    return kind_is(lookup(ex, st, as_str(ex, st, c.args[0]), 'metadata'), K_FILE)


@model(r'^Path::is_dir$', r'^Path::exists$')
def m_path_is_dir(ex, st, c):
    e = lookup(ex, st, as_str(ex, st, c.args[0]), 'metadata')
    return kind_is(e, K_DIR) if c.callee.endswith('is_dir') else b_not(kind_is(e, K_ABSENT))


@model(r'^Path::is_symlink$')
def m_path_is_symlink(ex, st, c):
    e = lookup(ex, st, as_str(ex, st, c.args[0]), 'metadata')
    return e.link if e.link is not None else False


@model(r'^Metadata::modified$')
def m_md_modified(ex, st, c): return Ok(Opaque('SystemTime', D(ex, st, c.args[0]).data.mtime))


@model(r'^SystemTime::now$', r'^std::time::SystemTime::now$')
def m_now(ex, st, c):
    t = z3.BitVec(ex.fresh('now'), 128)
    st.pc.append(z3.ULT(t, 1000000))
    return Opaque('SystemTime', t)


@model(r'^SystemTime::duration_since$')
def m_duration_since(ex, st, c): return Ok(Opaque('Duration', D(ex, st, c.args[0]).data))


@model(r'^Duration::as_nanos$')
def m_as_nanos(ex, st, c): return Int('u128', D(ex, st, c.args[0]).data)


@model(r'^BufReader::<File>::new$', r'^BufReader::new$', r'^std::io::BufReader::<.*>::new$')
def m_bufreader_new(ex, st, c): return D(ex, st, c.args[0])


@model(r'^<(std::io::)?BufReader<(std::fs::)?File> as (std::io::)?Seek>::seek$', r'^<(std::fs::)?File as (std::io::)?Seek>::seek$')
def m_seek(ex, st, c):
    f = D(ex, st, c.args[0]); pos = D(ex, st, c.args[1])
    e, _ = f.data
    if not (isinstance(pos, Enum) and pos.variant == 'Start'): raise Unsupported('seek %r' % (pos,))
    n = pos.fields[0]
    ex.store(st, c.args[0], Opaque('File', (e, n.v)))
    return Ok(n)


@model(r'^<.* as (std::io::)?Read>::by_ref$', r'^std::io::Read::by_ref$', r'^Read::by_ref$')
def m_by_ref(ex, st, c): return c.args[0]


@model(r'^<.* as (std::io::)?Read>::take$', r'^std::io::Read::take$')
def m_take(ex, st, c):
    # `reader.by_ref().take(n)` keeps the &mut: reads through the Take advance the underlying reader
    inner = c.args[0] if isinstance(c.args[0], MutRef) else D(ex, st, c.args[0])
    return Opaque('Take', (inner, D(ex, st, c.args[1])))


def read_range(e, pos, limit):
    """bytes [pos, min(pos+limit, len)) of entry content"""
    ln = e.content.length()
    start = ite_bv(bv_ult(pos, ln, LW), pos, ln, LW)
    avail = bv_sub(ln, start, LW)
    if limit is None: n = avail
    else: n = ite_bv(bv_ult(limit, avail, LW), limit, avail, LW)
    return e.content.substr(start, n), n


@model(r'^<std::io::Take<.*> as (std::io::)?Read>::read_to_end$', r'^<File as (std::io::)?Read>::read_to_end$', r'^<std::io::BufReader<File> as (std::io::)?Read>::read_to_end$', r'^<BufReader<File> as Read>::read_to_end$', r'^<Take<.*> as Read>::read_to_end$')
def m_file_read_to_end(ex, st, c):
    t = D(ex, st, c.args[0]); buf = D(ex, st, c.args[1])
    limit = None; inner_ref = None
    if t.tag == 'Take':
        f, lim = t.data; limit = lim.v
        if isinstance(f, MutRef): inner_ref = f; f = D(ex, st, f)
    else:
        f = t
    e, pos = f.data
    st.world['fslog'] = st.world.get('fslog', ()) + (('read', e.path),)
    isdir = kind_is(e, K_DIR)
    if st.world['fs']['cfg'].get('read_may_fail') if st.world.get('fs') else False:
        # opt-in: any read of an existing regular file may fail with an I/O error (EIO, EACCES after open, ...)
        iofail = z3.Bool(ex.fresh('read_io_error'))
        st.world['fs_iofail'] = st.world.get('fs_iofail', ()) + ((iofail, e.path),)
        isdir = b_or(isdir, iofail)
    data, n = read_range(e, pos, limit)
    # the read advances the position of the file it reads from
    newpos = bv_add(pos, n, LW)
    if inner_ref is not None: adv = (inner_ref, Opaque(f.tag, (e, newpos)))
    elif t.tag == 'Take': adv = (c.args[0], Opaque('Take', (Opaque(f.tag, (e, newpos)), Int('u64', bv_sub(limit, n, LW)))))
    else: adv = (c.args[0], Opaque(f.tag, (e, newpos)))
    return ForkStore([(isdir, Err(io_error()), None), (b_not(isdir), Ok(usize(n)), ((c.args[1], buf.concat(data)), adv))])


@model(r'^std::fs::read_to_string$', r'^read_to_string$', r'^fs::read_to_string$')
def m_read_to_string(ex, st, c):
    e = lookup(ex, st, as_str(ex, st, c.args[0]), 'read')
    ok = kind_is(e, K_FILE)
    return Fork([(ok, Ok(e.content)), (b_not(ok), Err(io_error()))])


@model(r'^std::fs::read_link$', r'^fs::read_link$', r'^read_link$')
def m_read_link(ex, st, c):
    p = as_str(ex, st, c.args[0])
    e = lookup(ex, st, p, 'metadata')
    if e.link is None: return Err(io_error())

    def linked(st_):
        # the link's text names a sibling: what the path resolves to IS the entry <directory of the link>/<target>
        f = p.flat(); found = False; idx = 0
        for i in range(f.cap):
            m = b_and(bv_ult(i, f.ln, LW), bv_eq(f.bs[i], 0x2f, 8))
            if m is False: continue
            idx = ite_bv(m, i, idx, LW); found = b_or(found, m)
        d = p.substr(0, idx)
        r = d.concat(SymStr.const(b'/')).concat(e.target)
        e2 = fs_lookup(ex, st_, r, 'model-resolve')
        st_.pc.append(z3.And(e2.kind == e.kind, zb(e2.content.eq(e.content)), e2.mtime == e.mtime, z3.Not(e2.link) if e2.link is not None else True, zb(found)))
        return Ok(e.target)
    return Fork([(e.link, LazyR(linked)), (z3.Not(e.link), Err(io_error()))])


MUTATORS = r'^(std::)?(fs::)?(File::create|File::create_new|OpenOptions::.*|remove_file|remove_dir|remove_dir_all|rename|create_dir|create_dir_all|copy|set_permissions|write|hard_link|std::os::unix::fs::symlink|File::set_len|File::set_permissions)$'


@model(r'^std::fs::(remove_file|remove_dir|remove_dir_all|rename|create_dir|create_dir_all|copy|set_permissions|write|hard_link)$', r'^File::create$', r'^File::create_new$',
       r'^OpenOptions::new$', r'^std::fs::OpenOptions::new$', r'^std::os::unix::fs::symlink$', r'^File::set_len$', r'^<File as (std::io::)?Write>::.*$',
       r'^fs::(remove_file|remove_dir|remove_dir_all|rename|create_dir|create_dir_all|copy|write)$', r'^(remove_file|remove_dir|remove_dir_all|rename|create_dir|create_dir_all)$')
def m_fs_mutator(ex, st, c):
    return StopR('fs-mutation', '%s reached at %s' % (c.callee, st.where()))


# ------------------------------------------------------------------ std::path (unix)
def path_extension(s):
    """Path::new(s).extension() for unix paths, as (is_some: bool/z3, ext: SymStr).  Follows std: file_name() is the
    last Normal component (trailing '/' and '/.' are skipped, '..' gives None); extension = text after the final '.'
    unless the name has no '.' or only a leading one."""
    c = s.concrete()
    if c is not None:
        import posixpath
        t = c.decode('latin1')
        # components
        comps = [x for x in t.split('/')]
        k = len(comps) - 1
        # skip empty (repeated or trailing separators) and '.' components (a leading '.' is kept by std as CurDir)
        while k >= 0 and (comps[k] == '' or (comps[k] == '.' and k > 0)): k -= 1
        if k < 0: return False, SymStr(())
        name = comps[k]
        if name in ('..', '.') or name == '': return False, SymStr(())
        d = name.rfind('.')
        if d <= 0: return False, SymStr(())
        return True, SymStr.const(name[d + 1:].encode('latin1'))
    f = s.flat(); n = f.cap
    # e: effective end after stripping trailing '/' and '/.' components (scan from the right)
    stripping = True; e = 0
    e_set = False
    for i in range(n - 1, -1, -1):
        inr = bv_ult(i, f.ln, LW)
        b = f.bs[i]
        prev_is_sep = True if i == 0 else bv_eq(f.bs[i - 1], 47, 8)
        is_sep = bv_eq(b, 47, 8)
        is_curdir = b_and(bv_eq(b, 46, 8), prev_is_sep, i > 0,
                          # the '.' must also be followed by '/' or end: i.e. we are still stripping, so everything to the right was skipped
                          True)
        skip = b_or(is_sep, is_curdir)
        stop_here = b_and(inr, stripping, b_not(skip))
        e = ite_bv(stop_here, i + 1, e, LW)
        stripping = b_and(stripping, b_or(b_not(inr), skip))
    # if still stripping at the end -> no file name
    has_name = b_not(stripping)
    # start of the last component: 1 + last index of '/' below e
    start = 0
    for i in range(n):
        start = ite_bv(b_and(bv_ult(i, e, LW), bv_eq(f.bs[i], 47, 8)), i + 1, start, LW)
    # last '.' in [start, e)
    d = 0; has_dot = False
    for i in range(n):
        hit = b_and(bv_ult(i, e, LW), bv_ule(start, i, LW), bv_eq(f.bs[i], 46, 8))
        d = ite_bv(hit, i, d, LW); has_dot = b_or(has_dot, hit)
    name_len = bv_sub(e, start, LW)
    is_dotdot = b_and(bv_eq(name_len, 2, LW), bv_eq(f.byte_at(start), 46, 8), bv_eq(f.byte_at(bv_add(start, 1, LW)), 46, 8))
    is_dot = b_and(bv_eq(name_len, 1, LW), bv_eq(f.byte_at(start), 46, 8))
    some = b_and(has_name, has_dot, b_not(bv_eq(d, start, LW)), b_not(is_dotdot), b_not(is_dot))
    ext = s.substr(bv_add(d, 1, LW), bv_sub(bv_sub(e, d, LW), 1, LW))
    return some, ext


@model(r'^Path::extension$', r'^std::path::Path::extension$')
def m_path_extension(ex, st, c):
    some, ext = path_extension(D(ex, st, c.args[0]))
    some = simp_bool(some)
    if some is False: return NONE
    return Fork([(some, Some(ext)), (b_not(some), NONE)])


# ------------------------------------------------------------------ lemma-backed stubs for dependency helpers
def filter_string_spec(s):
    """spec of file_ext::filter_string::FilterString::is_valid_input_string (file-ext 12.1.0) on ASCII input:
    returns the condition under which the function returns Ok(()).  Proved equivalent to the function's MIR for all
    strings up to a small bound by mirse.lemmas.lemma_filter_string before any check relies on it."""
    f = s.flat(); n = f.cap
    def ctl(b): return b_or(bv_ult(b, 0x20, 8), bv_eq(b, 0x7f, 8))
    inr = [bv_ult(i, f.ln, LW) for i in range(n)]
    solid = [b_and(inr[i], b_not(ctl(f.bs[i])), b_not(bv_eq(f.bs[i], 0x20, 8))) for i in range(n)]
    bad = False
    pre = False
    pres = []
    for i in range(n):
        pres.append(pre); pre = b_or(pre, solid[i])
    suf = False; sufs = [False] * n
    for i in range(n - 1, -1, -1):
        sufs[i] = suf; suf = b_or(suf, solid[i])
    for i in range(n):
        sp = b_and(inr[i], bv_eq(f.bs[i], 0x20, 8), pres[i], sufs[i])
        forb = b_and(inr[i], byte_in(f.bs[i], (0x27, 0x22, 0x26, 0x7c, 0x3b)))
        bad = b_or(bad, sp, forb)
    return b_not(bad)


def m_filter_string_stub(ex, st, c):
    s = as_str(ex, st, c.args[0])
    ok = simp_bool(filter_string_spec(s))
    if ok is True: return Ok(UNIT)
    return Fork([(ok, Ok(UNIT)), (b_not(ok), LazyR(lambda st_: Err(opaque_msg(ex, st_, 'FilterString'))))])


STUBS = {
    'filter_string': (re.compile(r'^(filter_string::)?FilterString::is_valid_input_string$'), m_filter_string_stub),
}


# ------------------------------------------------------------------ transport (mock stream) and the Application parameter
# world['stream'] = {'input': SymStr, 'read_fail': bool|z3 Bool|None(arbitrary), 'write_mode': 'arbitrary'|'ok', ...}
# world['io']     = tuple of events: ('read', ok) ('write', data, accepted) ('write_err', data) ('flush', ok)
def _io(st, *e): st.world['io'] = st.world.get('io', ()) + (tuple(e),)


@model(r'^<impl Read \+ Write \+ Unpin as (std::io::)?Read>::read$', r'^<&mut impl Read \+ Write \+ Unpin as (std::io::)?Read>::read$', r'^<(&mut )*(impl [^>]*|[A-Z]\w{0,2}|std::net::TcpStream|TcpStream) as (std::io::)?Read>::read$')
def m_stream_read(ex, st, c):
    cfg = st.world.get('stream')
    if cfg is None: raise Unsupported('stream read without a stream model')
    buf = D(ex, st, c.args[1])
    size = buf.length()
    if not isinstance(size, int): raise Unsupported('symbolic request buffer size')
    inp = cfg['input']
    # the transport delivers some prefix of what the peer sent, at most the buffer size; here: everything that fits
    data = inp.take(size) if inp.cap > size else inp
    n = data.length()
    pad = size - data.cap
    filled = data.concat(SymStr.const(b'\0' * (size - data.cap))) if isinstance(n, int) else None
    if filled is None:
        f = data.flat()
        filled = SymStr((Atom(size, tuple(f.bs) + (0,) * (size - f.cap)),))
    fail = cfg.get('read_fail')
    if fail is None: fail = z3.Bool(ex.fresh('read_fail'))
    return ForkStore([(fail, _IoEv(('read', False), Err(io_error())), None),
                      (b_not(fail), _IoEv(('read', True), Ok(usize(n))), (c.args[1], filled))])


class _IoEv:
    def __init__(s, e, v): s.e = e; s.v = v


@model(r'^<impl Read \+ Write \+ Unpin as (std::io::)?Write>::write$', r'^<(&mut )*(impl [^>]*|[A-Z]\w{0,2}|std::net::TcpStream|TcpStream) as (std::io::)?Write>::write$')
def m_stream_write(ex, st, c):
    cfg = st.world.get('stream')
    data = D(ex, st, c.args[1])
    n = data.length()
    mode = cfg.get('write_mode', 'arbitrary')
    if mode == 'ok':
        return _IoEv(('write', data, n), Ok(usize(n)))
    k = z3.BitVec(ex.fresh('accepted'), LW)
    kz = k
    fail = z3.Bool(ex.fresh('write_fail'))
    nz = bvval(n, LW) if isinstance(n, int) else n
    okc = z3.And(z3.Not(fail), z3.ULE(kz, nz), z3.Or(kz != 0, nz == 0))
    return Fork([(fail, _IoEv(('write_err', data), Err(io_error()))), (okc, _IoEv(('write', data, k), Ok(usize(k))))])


@model(r'^<impl Read \+ Write \+ Unpin as (std::io::)?Write>::write_all$', r'^<(&mut )*(impl [^>]*|[A-Z]\w{0,2}|std::net::TcpStream|TcpStream) as (std::io::)?Write>::write_all$')
def m_stream_write_all(ex, st, c):
    cfg = st.world.get('stream')
    data = D(ex, st, c.args[1])
    n = data.length()
    if cfg.get('write_mode', 'arbitrary') == 'ok':
        return _IoEv(('write', data, n), Ok(UNIT))
    fail = z3.Bool(ex.fresh('write_all_fail'))
    return Fork([(fail, _IoEv(('write_err', data), Err(io_error()))), (z3.Not(fail), _IoEv(('write', data, n), Ok(UNIT)))])


@model(r'^<impl Read \+ Write \+ Unpin as (std::io::)?Write>::flush$', r'^<(&mut )*(impl [^>]*|[A-Z]\w{0,2}|std::net::TcpStream|TcpStream) as (std::io::)?Write>::flush$')
def m_stream_flush(ex, st, c):
    cfg = st.world.get('stream')
    if cfg.get('flush_mode', 'arbitrary') == 'ok': return _IoEv(('flush', True), Ok(UNIT))
    fail = z3.Bool(ex.fresh('flush_fail'))
    return Fork([(fail, _IoEv(('flush', False), Err(io_error()))), (z3.Not(fail), _IoEv(('flush', True), Ok(UNIT)))])


@model(r'^(std::net::)?TcpStream::(shutdown|set_nodelay|set_read_timeout|set_write_timeout|set_nonblocking|set_ttl)$')
def m_socket_call(ex, st, c):
    """socket-level calls on the connection: the kernel may refuse any of them (ENOTCONN after a reset, EINVAL, ...)"""
    what = c.callee.split('::')[-1]
    fail = z3.Bool(ex.fresh(what + '_fail'))
    return Fork([(fail, _IoEv((what, False), Err(io_error()))), (z3.Not(fail), _IoEv((what, True), Ok(UNIT)))])


@model(r'^<impl Application as Application>::execute$')
def m_app_execute(ex, st, c):
    mode = st.world.get('app_mode', 'real')
    if mode == 'real':
        fn = ex.resolve('<App as Application>::execute')
        return CallFn(fn, list(c.args), lambda ex_, st_, r: r)
    if mode == 'abstract-fail':
        st.world['app_failed'] = True
        return Err(opaque_msg(ex, st, 'app'))
    # abstract application: any registered-status response with a short body, or an error message
    mk = st.world['app_mk_response']
    fail = z3.Bool(ex.fresh('app_fail'))
    def failed(st_):
        st_.world['app_failed'] = True
        return Err(opaque_msg(ex, st_, 'app'))
    return Fork([(fail, LazyR(failed)), (z3.Not(fail), LazyR(lambda st_: Ok(mk(ex, st_))))])


@model(r'^<IpAddr as FromStr>::from_str$')
def m_ipaddr_from_str(ex, st, c):
    s = as_str(ex, st, c.args[0])
    cc = s.concrete()
    if cc is None: raise Unsupported('IpAddr::from_str of a symbolic string')
    import ipaddress
    try:
        ipaddress.ip_address(cc.decode('ascii')); return Ok(Opaque('IpAddr', cc))
    except ValueError:
        return Err(Opaque('AddrParseError'))


@model(r'^std::net::SocketAddr::new$')
def m_socketaddr_new(ex, st, c): return Opaque('SocketAddr', (c.args[0], c.args[1]))


@model(r'^<std::net::SocketAddr as ToString>::to_string$', r'^<IpAddr as ToString>::to_string$')
def m_socketaddr_to_string(ex, st, c):
    v = D(ex, st, c.args[0])
    if v.tag == 'IpAddr': return SymStr.const(v.data)
    ip, port = v.data
    return SymStr.const(D(ex, st, ip).data + b':' + str(D(ex, st, port).v).encode())


@model(r'^std::net::SocketAddr::ip$')
def m_socketaddr_ip(ex, st, c): return D(ex, st, D(ex, st, c.args[0]).data[0])


@model(r'^std::net::SocketAddr::port$')
def m_socketaddr_port(ex, st, c): return D(ex, st, D(ex, st, c.args[0]).data[1])


def _install_io():
    orig = Executor.apply_result

    def apply_result(s, st, fr, dest, ret_bb, res):
        if isinstance(res, _IoEv):
            _io(st, *res.e)
            return s.apply_result(st, fr, dest, ret_bb, res.v)
        return orig(s, st, fr, dest, ret_bb, res)
    Executor.apply_result = apply_result


_install_io()


@model(r'^current$', r'^std::thread::current$', r'^thread::current$')
def m_thread_current(ex, st, c): return Opaque('Thread')


@model(r'^Thread::name$', r'^std::thread::Thread::name$')
def m_thread_name(ex, st, c): return Some(SymStr.const('0'))     # pool workers are named by their index
