"""Second batch of std models: generic lazy iterator adaptors (map / filter / enumerate / skip / take / zip / chain / ... with every
consumer written once in continuation-passing style), more str / String / Vec<u8> functions, integer and character-class helpers,
mem::swap/replace/take.  Registered AFTER models.py and envmodels.py, i.e. with the lowest priority: a callee that already had a
model keeps it.  Every model here is validated differentially against the native std (stdprobe/run.py)."""
import re
import z3
from .sym import *
from .engine import *
from . import models as MD
from .models import (model, D, as_str, usize, LazyR, _WithStore, ForkStore, pure_next, to_iter, char_of, find_general, match_at_general,
                     split_once_parts, byte_pattern, in_set, compact, default_of, _gen_args, is_ws, lower, upper, int_to_dec)

# ------------------------------------------------------------------ generic iterator adaptors
ADAPTORS = ('map', 'filter', 'enumerate', 'skip', 'take', 'zip', 'chain', 'cloned', 'copied', 'rev', 'take_while', 'skip_while', 'filter_map',
            'peekable', 'inspect', 'by_ref', 'fuse', 'step_by', 'map_while', 'flat_map', 'flatten')


def A(kind, inner, arg=None, extra=None): return Opaque('Adapt', (kind, inner, arg, extra))


def is_adapt(v): return isinstance(v, Opaque) and v.tag == 'Adapt'


def lazy_of(ex, st, v):
    v = D(ex, st, v)
    if is_adapt(v): return v
    if isinstance(v, Enum) and v.ty == 'Option': return Iter('vec', [v.fields[0]] if v.variant == 'Some' else [])
    if isinstance(v, Enum) and v.ty == 'Result': return Iter('vec', [v.fields[0]] if v.variant == 'Ok' else [])
    return to_iter(ex, st, v)


_orig_to_iter = MD.to_iter


def _to_iter2(ex, st, v, callee=''):
    if is_adapt(v): return v
    if isinstance(v, Opaque) and v.tag in ('SplitN', 'StrLines', 'SplitIncl', 'Windows'): return v
    return _orig_to_iter(ex, st, v, callee)


MD.to_iter = _to_iter2
to_iter = _to_iter2
_orig_pure_next = MD.pure_next


def _pure_next2(ex, st, it):
    if isinstance(it, Opaque) and it.tag == 'Split':
        rest, p = it.data
        pf = p.flat()
        if not pf.conc_len or pf.ln == 0: raise Unsupported('split by an empty or symbolic-length pattern')
    if isinstance(it, Opaque) and it.tag == 'SplitN':
        rest, p, n = it.data
        if rest is None or n == 0: return [(True, None, Opaque('SplitN', (None, p, 0)))]
        if n == 1: return [(True, rest, Opaque('SplitN', (None, p, 0)))]
        found, idx = find_general(rest, p)
        if found is False: return [(True, rest, Opaque('SplitN', (None, p, 0)))]
        left, right = split_once_parts(rest, p, found, idx)
        return [(found, left, Opaque('SplitN', (right, p, n - 1))), (b_not(found), rest, Opaque('SplitN', (None, p, 0)))]
    if isinstance(it, Opaque) and it.tag == 'StrLines':
        rest = it.data
        if rest is None: return [(True, None, it)]
        empty = bv_eq(rest.length(), 0, LW)
        nl = SymStr.const(b'\n')
        found, idx = find_general(rest, nl)
        alts = []
        if empty is not False: alts.append((empty, None, Opaque('StrLines', None)))
        ne = b_not(empty)
        if found is not False:
            line = rest.substr(0, idx)
            cr = line.ends_with(b'\r')
            ln_ = line.length()
            line2 = line.substr(0, ite_bv(cr, bv_sub(ln_, 1, LW), ln_, LW)) if cr is not False else line
            alts.append((b_and(ne, found), line2, Opaque('StrLines', rest.suffix_from(bv_add(idx, 1, LW)))))
        if found is not True:
            alts.append((b_and(ne, b_not(found)), rest, Opaque('StrLines', None)))
        return alts
    if isinstance(it, Opaque) and it.tag == 'SplitIncl':
        rest, p = it.data
        if rest is None: return [(True, None, it)]
        empty = bv_eq(rest.length(), 0, LW)
        found, idx = find_general(rest, p)
        pl = p.length()
        alts = []
        if empty is not False: alts.append((empty, None, Opaque('SplitIncl', (None, p))))
        ne = b_not(empty)
        if found is not False:
            cut = bv_add(idx, pl, LW)
            alts.append((b_and(ne, found), rest.substr(0, cut), Opaque('SplitIncl', (rest.suffix_from(cut), p))))
        if found is not True: alts.append((b_and(ne, b_not(found)), rest, Opaque('SplitIncl', (None, p))))
        return alts
    if isinstance(it, Opaque) and it.tag in ('Range', 'RangeInclusive'):
        a, b = it.data[0], it.data[1]
        if not (isinstance(a, Int) and isinstance(b, Int)): raise Unsupported('range of %r' % (a,))
        done = int_binop('Ge' if it.tag == 'Range' else 'Gt', a, b)
        nxt = int_binop('Add', a, Int(a.ty, 1)) if done is not True else a
        return [(done, None, it), (b_not(done), a, Opaque(it.tag, (nxt, b)))]
    return _orig_pure_next(ex, st, it)


MD.pure_next = _pure_next2
pure_next = _pure_next2


def _branch(r, yes, no):
    r = simp_bool(r) if not isinstance(r, bool) else r
    if r is True: return yes()
    if r is False: return no()
    return Fork([(r, LazyR(yes)), (b_not(r), LazyR(no))])


def _conc_n(v, what):
    if isinstance(v, Int):
        if not v.conc: raise Unsupported('%s with a symbolic count' % what)
        return v.v
    return int(v)


def g_next(ex, st, it, k):
    """one step of any lazy iterator in continuation-passing style: k(item | None, next iterator value) -> model result"""
    if is_adapt(it):
        kind, inner, arg, extra = it.data
        if kind == 'map':
            def kk(x, ni):
                if x is None: return k(None, A('map', ni, arg))
                return CallFn(arg, [x], lambda e_, s_, r: k(r, A('map', ni, arg)))
            return g_next(ex, st, inner, kk)
        if kind in ('filter', 'skip_while', 'take_while'):
            def kk(x, ni):
                if x is None: return k(None, A(kind, ni, arg, extra))
                if kind == 'skip_while' and extra: return k(x, A(kind, ni, arg, True))

                def cont(e_, s_, r):
                    if kind == 'filter':
                        return _branch(r, lambda: k(x, A(kind, ni, arg)), lambda: g_next(e_, s_, A(kind, ni, arg), k))
                    if kind == 'skip_while':
                        return _branch(r, lambda: g_next(e_, s_, A(kind, ni, arg, False), k), lambda: k(x, A(kind, ni, arg, True)))
                    return _branch(r, lambda: k(x, A(kind, ni, arg)), lambda: k(None, A(kind, Iter('vec', []), arg)))
                return CallFn(arg, [x], cont)
            return g_next(ex, st, inner, kk)
        if kind in ('filter_map', 'map_while'):
            def kk(x, ni):
                if x is None: return k(None, A(kind, ni, arg))

                def cont(e_, s_, r):
                    r = D(e_, s_, r)
                    if r.variant == 'Some': return k(r.fields[0], A(kind, ni, arg))
                    if kind == 'map_while': return k(None, A(kind, Iter('vec', []), arg))
                    return LazyR(lambda: g_next(e_, s_, A(kind, ni, arg), k))
                return CallFn(arg, [x], cont)
            return g_next(ex, st, inner, kk)
        if kind == 'enumerate':
            i = arg or 0
            return g_next(ex, st, inner, lambda x, ni: k(None if x is None else Tup((usize(i), x)), A('enumerate', ni, i + 1)))
        if kind == 'skip':
            n = arg
            if n == 0: return g_next(ex, st, inner, lambda x, ni: k(x, A('skip', ni, 0)))
            return g_next(ex, st, inner, lambda x, ni: k(None, A('skip', ni, 0)) if x is None else LazyR(lambda: g_next(ex, st, A('skip', ni, n - 1), k)))
        if kind == 'take':
            n = arg
            if n == 0: return k(None, it)
            return g_next(ex, st, inner, lambda x, ni: k(x, A('take', ni, 0 if x is None else n - 1)))
        if kind == 'step_by':
            n, first = arg, extra
            if first: return g_next(ex, st, inner, lambda x, ni: k(x, A('step_by', ni, n, False)))
            return g_next(ex, st, A('skip', inner, n - 1), lambda x, ni: k(x, A('step_by', ni.data[1] if is_adapt(ni) else ni, n, False)))
        if kind == 'zip':
            def ka(x, na):
                if x is None: return k(None, A('zip', na, arg))
                return g_next(ex, st, arg, lambda y, nb: k(None if y is None else Tup((x, y)), A('zip', na, nb)))
            return g_next(ex, st, inner, ka)
        if kind == 'chain':
            if inner is None: return g_next(ex, st, arg, lambda y, nb: k(y, A('chain', None, nb)))

            def ka(x, na):
                if x is not None: return k(x, A('chain', na, arg))
                return g_next(ex, st, arg, lambda y, nb: k(y, A('chain', None, nb)))
            return g_next(ex, st, inner, ka)
        if kind == 'peekable':
            if extra is not None:
                return k(extra[0], A('peekable', inner, None, None))
            return g_next(ex, st, inner, lambda x, ni: k(x, A('peekable', ni)))
        if kind in ('flat_map', 'flatten'):
            cur = extra
            if cur is not None:
                def kc(y, nc):
                    if y is not None: return k(y, A(kind, inner, arg, nc))
                    return LazyR(lambda: g_next(ex, st, A(kind, inner, arg, None), k))
                return g_next(ex, st, cur, kc)

            def ko(x, ni):
                if x is None: return k(None, A(kind, ni, arg, None))
                if kind == 'flatten': return LazyR(lambda: g_next(ex, st, A(kind, ni, arg, lazy_of(ex, st, x)), k))
                return CallFn(arg, [x], lambda e_, s_, r: LazyR(lambda: g_next(e_, s_, A(kind, ni, arg, lazy_of(e_, s_, r)), k)))
            return g_next(ex, st, inner, ko)
        raise Unsupported('iterator adaptor ' + kind)
    alts = pure_next(ex, st, it)
    if len(alts) == 1 and alts[0][0] is True: return k(alts[0][1], alts[0][2])
    live = [(cond, item, nit) for cond, item, nit in alts if cond is not False]
    if len(live) == 1 and live[0][0] is True: return k(live[0][1], live[0][2])
    return Fork([(cond, MD._lazy(k, item, nit)) for cond, item, nit in live])


def rev_of(ex, st, it):
    if isinstance(it, Iter): return Iter(it.kind, list(reversed(it.items[it.pos:])))
    if isinstance(it, Opaque) and it.tag in ('Chars', 'Bytes'):
        s_, pos = it.data
        f = s_.flat()
        if isinstance(pos, int) and f.conc_len:
            if it.tag == 'Chars' and getattr(ex, 'allow_non_ascii', False) and any(not isinstance(b, int) or b >= 0x80 for b in f.bs): raise Unsupported('rev of non-ASCII chars')
            bs = list(reversed(f.bs[pos:]))
            return Iter('vec', [char_of(b) if it.tag == 'Chars' else Int('u8', b) for b in bs])
    if is_adapt(it) and it.data[0] in ('map', 'enumerate') and False: pass
    raise Unsupported('rev of %r' % (it,))


@model(r"^<.* as Iterator>::(%s)$" % '|'.join(ADAPTORS), r"^<.* as DoubleEndedIterator>::(rev)$")
def m_adaptor(ex, st, c):
    kind = strip_generics(c.callee).rsplit('::', 1)[1]
    inner = lazy_of(ex, st, c.args[0])
    if kind in ('cloned', 'copied', 'fuse'): return inner
    if kind == 'by_ref': return c.args[0]
    if kind == 'inspect': raise Unsupported('Iterator::inspect')
    if kind == 'rev': return rev_of(ex, st, inner)
    if kind in ('skip', 'take', 'step_by'):
        n = _conc_n(D(ex, st, c.args[1]), kind)
        if kind == 'step_by':
            if n == 0: return Panic('assertion failed: step != 0')
            return A('step_by', inner, n, True)
        return A(kind, inner, n)
    if kind in ('zip', 'chain'): return A(kind, inner, lazy_of(ex, st, c.args[1]))
    if kind == 'enumerate': return A('enumerate', inner, 0)
    if kind in ('peekable', 'flatten'): return A(kind, inner)
    if kind == 'skip_while': return A(kind, inner, c.args[1], False)
    return A(kind, inner, c.args[1])


def _collect_target(callee):
    g = re.search(r'::collect::<(.*)>$', callee)
    return g.group(1).strip() if g else ''


def _finish_collect(ex, st, target, items):
    t = target
    if t.startswith(('String', 'std::string::String')) or t == 'Cow<\'_, str>':
        segs = []
        for x in items:
            x = D(ex, st, x)
            if isinstance(x, SymStr): segs.append(x)
            elif isinstance(x, Int) and x.ty == 'char':
                if x.conc: segs.append(SymStr.const(chr(x.v).encode('utf-8')))
                else: segs.append(SymStr((Atom(1, (z3.Extract(7, 0, x.v),)),)))
            else: raise Unsupported('collect::<String> of %r' % (x,))
        return SymStr.join(segs) if segs else SymStr(())
    if re.match(r'^(std::vec::)?Vec<u8>', t):
        bs = []
        for x in items:
            x = D(ex, st, x)
            if not (isinstance(x, Int) and x.ty == 'u8'): raise Unsupported('collect::<Vec<u8>> of %r' % (x,))
            bs.append(x.v)
        return SymStr((Atom(len(bs), tuple(bs)),)) if bs else SymStr(())
    if re.match(r'^(std::vec::)?Vec<', t) or t.startswith('Box<['): return Vec(list(items))
    if t.startswith(('Result<', 'Option<')):
        inner_t = t[t.index('<') + 1:]
        good = []
        for x in items:
            x = D(ex, st, x)
            if x.variant in ('Err', 'None'): return x
            good.append(x.fields[0])
        r = _finish_collect(ex, st, inner_t, good)
        return Ok(r) if t.startswith('Result<') else Some(r)
    if 'HashMap<' in t:
        return Opaque('HashMap', tuple((D(ex, st, x).items[0], D(ex, st, x).items[1]) for x in items))
    raise Unsupported('collect into ' + t)


def _consume(ex, st, it, step, finish, acc, n=0):
    """fold the iterator: step(acc, item, index) -> new acc | ('stop', value) ; finish(acc) -> value.  Both may return model results."""
    if n > max(ex.max_block_visits, 64) * 4: return StopR('bound:unroll', 'iterator longer than the unroll bound')

    def k(x, ni):
        if x is None: return finish(acc)
        r = step(acc, x, n)
        if isinstance(r, tuple) and r and r[0] == 'stop': return r[1]
        if isinstance(r, tuple) and r and r[0] == 'fork':
            def arm0(v):
                if isinstance(v, tuple) and v and v[0] == 'stop': return lambda: v[1]
                return lambda: _consume(ex, st, ni, step, finish, v, n + 1)
            return _branch(r[1], arm0(r[2]), arm0(r[3]))
        if isinstance(r, tuple) and r and r[0] == 'call':       # ('call', closure, args, fn(result) -> acc | ('stop', v))
            def cont(e_, s_, res):
                a2 = r[3](res)
                if isinstance(a2, tuple) and a2 and a2[0] == 'stop': return a2[1]
                if isinstance(a2, tuple) and a2 and a2[0] == 'fork':   # ('fork', cond, acc_if_true | ('stop', v), acc_if_false | ('stop', v))
                    def arm(v):
                        if isinstance(v, tuple) and v and v[0] == 'stop': return lambda: v[1]
                        return lambda: _consume(e_, s_, ni, step, finish, v, n + 1)
                    return _branch(a2[1], arm(a2[2]), arm(a2[3]))
                return LazyR(lambda: _consume(e_, s_, ni, step, finish, a2, n + 1))
            return CallFn(r[1], list(r[2]), cont)
        return LazyR(lambda: _consume(ex, st, ni, step, finish, r, n + 1))
    return g_next(ex, st, it, k)


def _generic_only(ex, st, c):
    """True when the receiver is an adaptor (or a base iterator without a dedicated consumer model)"""
    return True


@model(r"^<.* as Iterator>::(next)$")
def m_g_next(ex, st, c):
    it = lazy_of(ex, st, c.args[0])
    return g_next(ex, st, it, lambda x, ni: _WithStore(NONE if x is None else Some(x), (c.args[0], ni)))


@model(r"^<.* as Iterator>::(collect|count|last|nth|fold|sum|product|for_each|min|max|find|find_map|any|all|position|rposition|unzip|max_by_key|min_by_key)$",
       r"^<.* as Iterator>::(try_fold|reduce)$")
def m_g_consume(ex, st, c):
    op = strip_generics(c.callee).rsplit('::', 1)[1]
    recv = D(ex, st, c.args[0])
    it = lazy_of(ex, st, recv)
    # consumers taking `&mut self` must leave the advanced iterator behind; those taking `self` need not
    by_ref = op in ('nth', 'find', 'find_map', 'any', 'all', 'position', 'rposition', 'try_fold')
    if op == 'collect':
        target = _collect_target(c.callee)
        return _consume(ex, st, it, lambda acc, x, i: acc + (x,), lambda acc: _finish_collect(ex, st, target, acc), ())
    if op == 'count': return _consume(ex, st, it, lambda acc, x, i: acc + 1, lambda acc: usize(acc), 0)
    if op == 'last': return _consume(ex, st, it, lambda acc, x, i: (x,), lambda acc: Some(acc[0]) if acc else NONE, ())
    if op == 'nth':
        n = _conc_n(D(ex, st, c.args[1]), 'nth')
        return _consume(ex, st, it, lambda acc, x, i: ('stop', Some(x)) if i == n else acc, lambda acc: NONE, None)
    if op in ('sum', 'product'):
        g = re.search(r'::(?:sum|product)::<(\w+)>$', c.callee)
        ty = g.group(1) if g else 'usize'

        def stepf(acc, x, i):
            x = D(ex, st, x)
            r, ov = int_binop('AddWithOverflow' if op == 'sum' else 'MulWithOverflow', acc, x)
            if ov is True: return ('stop', Panic('attempt to %s with overflow' % ('add' if op == 'sum' else 'multiply')))
            if ov is False: return r
            return ('fork', ov, ('stop', Panic('attempt to %s with overflow' % ('add' if op == 'sum' else 'multiply'))), r)
        return _consume(ex, st, it, stepf, lambda acc: acc, Int(ty, 0 if op == 'sum' else 1))
    if op == 'fold':
        init = c.args[1]; f = c.args[2]
        return _consume(ex, st, it, lambda acc, x, i: ('call', f, [acc, x], lambda r: r), lambda acc: acc, init)
    if op == 'reduce':
        f = c.args[1]
        return _consume(ex, st, it, lambda acc, x, i: (x,) if not acc else ('call', f, [acc[0], x], lambda r: (r,)), lambda acc: Some(acc[0]) if acc else NONE, ())
    if op == 'for_each':
        f = c.args[1]
        return _consume(ex, st, it, lambda acc, x, i: ('call', f, [x], lambda r: None), lambda acc: UNIT, None)
    if op in ('min', 'max'):
        def stepm(acc, x, i):
            x = D(ex, st, x)
            if not isinstance(x, Int): raise Unsupported('Iterator::%s over %r' % (op, x))
            if not acc: return (x,)
            lt = int_binop('Lt', x, acc[0]) if op == 'min' else int_binop('Ge', x, acc[0])
            return (ite(lt, x, acc[0]),)
        return _consume(ex, st, it, stepm, lambda acc: Some(acc[0]) if acc else NONE, ())
    if op in ('any', 'all', 'position', 'find', 'find_map', 'rposition'):
        f = c.args[1]
        if op == 'rposition':
            items = []
            base = it
            if isinstance(base, Iter): items = list(base.items[base.pos:])
            else: raise Unsupported('rposition over %r' % (base,))
            n = len(items)
            rit = Iter('vec', list(reversed(items)))
            return _consume(ex, st, rit, lambda acc, x, i: ('call', f, [x], lambda r: ('fork', r, ('stop', Some(usize(n - 1 - i))), acc)), lambda acc: NONE, None)

        def stepp(acc, x, i):
            if op == 'find_map':
                def after(r):
                    r = D(ex, st, r)
                    return ('stop', r) if r.variant == 'Some' else acc
                return ('call', f, [x], after)
            hit = {'any': True, 'all': False, 'position': Some(usize(i)), 'find': Some(x)}[op]
            if op == 'all': return ('call', f, [x], lambda r: ('fork', r, acc, ('stop', hit)))
            return ('call', f, [x], lambda r: ('fork', r, ('stop', hit), acc))
        return _consume(ex, st, it, stepp, lambda acc: {'any': False, 'all': True}.get(op, NONE), None)
    if op == 'unzip':
        def fin(acc):
            a = [D(ex, st, x).items[0] for x in acc]; b = [D(ex, st, x).items[1] for x in acc]
            return Tup((Vec(a), Vec(b)))
        return _consume(ex, st, it, lambda acc, x, i: acc + (x,), fin, ())
    raise Unsupported('Iterator::' + op)


@model(r"^<.* as Iterator>::peek$", r"^Peekable::<.*>::peek$", r"^Peekable::peek$")
def m_peek(ex, st, c):
    it = D(ex, st, c.args[0])
    if not (is_adapt(it) and it.data[0] == 'peekable'): raise Unsupported('peek on %r' % (it,))
    kind, inner, arg, extra = it.data
    if extra is not None: return NONE if extra[0] is None else Some(extra[0])
    return g_next(ex, st, inner, lambda x, ni: _WithStore(NONE if x is None else Some(x), (c.args[0], A('peekable', ni, None, (x,)))))


# ------------------------------------------------------------------ str / String
@model(r'^core::str::<impl str>::rfind$')
def m_rfind(ex, st, c):
    s = D(ex, st, c.args[0])
    kind, p = byte_pattern(ex, st, c.args[1])
    f = s.flat()
    if kind == 'closure': raise Unsupported('rfind with a closure')
    if kind == 'set':
        pred = in_set(p); found = False; idx = 0
        for i in range(f.cap):
            m = b_and(bv_ult(i, f.ln, LW), pred(f.bs[i]))
            if m is False: continue
            idx = ite_bv(m, i, idx, LW); found = b_or(found, m)
    else:
        pf = p.flat()
        if not pf.conc_len: raise Unsupported('rfind of a symbolic-length pattern')
        if pf.ln == 0: return Some(usize(s.length()))
        found = False; idx = 0
        for i in range(f.cap - pf.ln + 1):
            m = match_at_general(s, i, p)
            if m is False: continue
            idx = ite_bv(m, i, idx, LW); found = b_or(found, m)
    if found is False: return NONE
    return Fork([(found, Some(usize(idx))), (b_not(found), NONE)])


@model(r'^core::str::<impl str>::rsplit_once$')
def m_rsplit_once(ex, st, c):
    s = D(ex, st, c.args[0])
    kind, p = byte_pattern(ex, st, c.args[1])
    r = m_rfind(ex, st, c)
    pl = 1 if kind == 'set' else p.flat().ln

    def mk(v):
        if v.variant == 'None': return NONE
        i = v.fields[0].v
        return Some(Tup((s.substr(0, i), s.suffix_from(bv_add(i, pl, LW)))))
    if isinstance(r, Fork): return Fork([(cnd, mk(v)) for cnd, v in r.alts])
    return mk(r)


@model(r'^core::str::<impl str>::strip_suffix$')
def m_strip_suffix(ex, st, c):
    s = D(ex, st, c.args[0])
    kind, p = byte_pattern(ex, st, c.args[1])
    if kind == 'closure': raise Unsupported('strip_suffix with a closure')
    if kind == 'set':
        hit = MD._edge_byte_matches(ex, s, 'set', p, first=False); pl = 1
    else:
        pf = p.flat()
        if not pf.conc_len: raise Unsupported('strip_suffix of a symbolic-length pattern')
        hit = s.ends_with(p); pl = pf.ln
    if hit is False: return NONE
    res = Some(s.substr(0, bv_sub(s.length(), pl, LW)))
    if hit is True: return res
    return Fork([(hit, res), (b_not(hit), NONE)])


@model(r'^core::str::<impl str>::is_ascii$', r'^core::slice::<impl \[u8\]>::is_ascii$')
def m_is_ascii(ex, st, c):
    f = D(ex, st, c.args[0]).flat()
    return b_and(*[b_or(b_not(bv_ult(i, f.ln, LW)), (b < 0x80) if isinstance(b, int) else z3.ULT(b, 0x80)) for i, b in enumerate(f.bs)]) if f.cap else True


@model(r'^core::str::<impl str>::is_char_boundary$')
def m_is_char_boundary(ex, st, c):
    s = D(ex, st, c.args[0]); i = D(ex, st, c.args[1])
    n = s.length()
    inside = bv_ule(i.v, n, LW)
    saved = getattr(ex, 'allow_non_ascii', False)
    ex.allow_non_ascii = True
    try: ncb = MD.not_char_boundary(ex, s, i.v)
    finally: ex.allow_non_ascii = saved
    return b_and(inside, b_not(ncb))


@model(r'^str::<impl str>::to_ascii_lowercase$', r'^core::str::<impl str>::make_ascii_lowercase$')
def m_to_ascii_lower(ex, st, c):
    r = D(ex, st, c.args[0]).map_bytes(lower)
    if c.callee.endswith('make_ascii_lowercase'): ex.store(st, c.args[0], r); return UNIT
    return r


@model(r'^str::<impl str>::to_ascii_uppercase$', r'^core::str::<impl str>::make_ascii_uppercase$')
def m_to_ascii_upper(ex, st, c):
    r = D(ex, st, c.args[0]).map_bytes(upper)
    if c.callee.endswith('make_ascii_uppercase'): ex.store(st, c.args[0], r); return UNIT
    return r


@model(r'^str::<impl str>::repeat$', r'^alloc::str::<impl str>::repeat$')
def m_repeat(ex, st, c):
    s = D(ex, st, c.args[0]); n = _conc_n(D(ex, st, c.args[1]), 'repeat')
    if n * max(1, s.flat().cap) > 4096: raise Unsupported('repeat result too long')
    return SymStr.join([s] * n) if n else SymStr(())


@model(r'^core::str::<impl str>::bytes$')
def m_str_bytes(ex, st, c): return to_iter(ex, st, D(ex, st, c.args[0]))


@model(r'^core::str::<impl str>::lines$')
def m_str_lines(ex, st, c): return Opaque('StrLines', D(ex, st, c.args[0]))


@model(r'^core::str::<impl str>::split_inclusive$')
def m_split_inclusive(ex, st, c):
    kind, p = byte_pattern(ex, st, c.args[1])
    if kind == 'closure': raise Unsupported('split_inclusive with a closure')
    if kind == 'set':
        if len(p) != 1 or not isinstance(p[0], int): raise Unsupported('split_inclusive by a character set')
        p = SymStr.const(bytes([p[0]]))
    return Opaque('SplitIncl', (D(ex, st, c.args[0]), p))


@model(r'^core::str::<impl str>::splitn$')
def m_splitn(ex, st, c):
    n = _conc_n(D(ex, st, c.args[1]), 'splitn')
    kind, p = byte_pattern(ex, st, c.args[2])
    if kind == 'closure': raise Unsupported('splitn with a closure')
    if kind == 'set':
        if len(p) != 1 or not isinstance(p[0], int): raise Unsupported('splitn by a character set')
        p = SymStr.const(bytes([p[0]]))
    if not p.flat().conc_len or p.flat().ln == 0: raise Unsupported('splitn by an empty pattern')
    return Opaque('SplitN', (D(ex, st, c.args[0]), p, n))


@model(r'^core::str::<impl str>::char_indices$')
def m_char_indices(ex, st, c):
    s = D(ex, st, c.args[0]); f = s.flat()
    if not f.conc_len: raise Unsupported('char_indices of a symbolic-length string')
    if getattr(ex, 'allow_non_ascii', False) and any(not isinstance(b, int) or b >= 0x80 for b in f.bs): raise Unsupported('char_indices of non-ASCII text')
    return Iter('vec', [Tup((usize(i), char_of(b))) for i, b in enumerate(f.bs)])


@model(r'^String::(reserve|reserve_exact|shrink_to_fit|shrink_to)$', r'^Vec::<.*>::(reserve|reserve_exact|shrink_to_fit|shrink_to)$')
def m_reserve(ex, st, c): return UNIT


@model(r'^Vec::<.*>::capacity$', r'^String::capacity$')
def m_capacity(ex, st, c):
    v = D(ex, st, c.args[0])
    return usize(v.length()) if isinstance(v, SymStr) else usize(len(v.items))


@model(r'^String::pop$')
def m_string_pop(ex, st, c):
    a = D(ex, st, c.args[0]); f = a.flat()
    if getattr(ex, 'allow_non_ascii', False) and any(not isinstance(b, int) or b >= 0x80 for b in f.bs): raise Unsupported('String::pop on non-ASCII text')
    n = a.length()
    empty = bv_eq(n, 0, LW)
    if empty is True: return NONE
    last = f.byte_at(bv_sub(n, 1, LW))
    return ForkStore([(empty, NONE, None), (b_not(empty), Some(char_of(last)), (c.args[0], a.substr(0, bv_sub(n, 1, LW))))])


def _insert_at(ex, st, c, piece):
    a = D(ex, st, c.args[0]); i = D(ex, st, c.args[1])
    n = a.length()
    oob = bv_ult(n, i.v, LW)
    res = a.substr(0, i.v).concat(piece).concat(a.suffix_from(i.v)) if oob is not True else None
    alts = [(oob, Panic('insertion index is out of bounds'), None)]
    if res is not None: alts.append((b_not(oob), UNIT, (c.args[0], res)))
    return ForkStore(alts)


@model(r'^String::insert$', r'^Vec::<u8>::insert$')
def m_insert(ex, st, c):
    x = D(ex, st, c.args[2])
    if x.ty == 'char' and not (x.conc and x.v < 0x80) and getattr(ex, 'allow_non_ascii', False): raise Unsupported('insert of a non-ASCII char')
    b = x.v if x.conc else (z3.Extract(7, 0, x.v) if x.ty == 'char' else x.v)
    piece = SymStr.const(chr(x.v).encode('utf-8')) if (x.conc and x.ty == 'char') else SymStr((Atom(1, (b,)),))
    return _insert_at(ex, st, c, piece)


@model(r'^String::insert_str$')
def m_insert_str(ex, st, c): return _insert_at(ex, st, c, as_str(ex, st, c.args[2]))


@model(r'^String::retain$', r'^Vec(::<u8>)?::retain$')
def m_retain(ex, st, c):
    a = D(ex, st, c.args[0]); f = a.flat(); clo = c.args[1]
    is_string = c.callee.startswith('String')
    if f.cap > 64: raise Unsupported('retain over a long string')

    def go(i, keeps):
        if i == f.cap:
            r = compact(f, [simp_bool(b_and(bv_ult(j, f.ln, LW), kp)) for j, kp in enumerate(keeps)])
            return _WithStore(UNIT, (c.args[0], r))
        b = f.bs[i]
        item = char_of(b) if is_string else Int('u8', b)
        return CallFn(clo, [item], lambda e_, s_, r: LazyR(lambda: go(i + 1, keeps + [r])))
    return go(0, [])


@model(r'^core::slice::<impl \[u8\]>::reverse$', r'^core::slice::<impl \[T\]>::reverse$')
def m_reverse(ex, st, c):
    a = D(ex, st, c.args[0])
    if isinstance(a, Vec): ex.store(st, c.args[0], Vec(list(reversed(a.items)))); return UNIT
    f = a.flat()
    if not f.conc_len: raise Unsupported('reverse of a symbolic-length byte string')
    ex.store(st, c.args[0], SymStr((Atom(f.ln, tuple(reversed(f.bs))),))); return UNIT


@model(r'^core::slice::<impl \[.*\]>::swap$')
def m_swap_elems(ex, st, c):
    a = D(ex, st, c.args[0]); i = D(ex, st, c.args[1]); j = D(ex, st, c.args[2])
    if not (i.conc and j.conc): raise Unsupported('slice::swap with symbolic indices')
    if isinstance(a, Vec):
        if max(i.v, j.v) >= len(a.items): return Panic('index out of bounds')
        it = list(a.items); it[i.v], it[j.v] = it[j.v], it[i.v]; ex.store(st, c.args[0], Vec(it)); return UNIT
    f = a.flat()
    if not f.conc_len: raise Unsupported('slice::swap on a symbolic-length byte string')
    if max(i.v, j.v) >= f.ln: return Panic('index out of bounds')
    bs = list(f.bs); bs[i.v], bs[j.v] = bs[j.v], bs[i.v]
    ex.store(st, c.args[0], SymStr((Atom(f.ln, tuple(bs)),))); return UNIT


@model(r'^Vec::<u8>::resize$')
def m_resize(ex, st, c):
    a = D(ex, st, c.args[0]); n = D(ex, st, c.args[1]); v = D(ex, st, c.args[2])
    f = a.flat()
    if n.conc:
        if f.conc_len:
            bs = list(f.bs[:n.v]) + [v.v] * max(0, n.v - f.ln)
            ex.store(st, c.args[0], SymStr((Atom(n.v, tuple(bs)),))); return UNIT
        if n.v > 4096: raise Unsupported('resize to a large size')
        bs = []
        for i in range(n.v):
            old = f.bs[i] if i < f.cap else 0
            bs.append(ite_bv(bv_ult(i, f.ln, LW), old, v.v, 8) if i < f.cap else v.v)
        ex.store(st, c.args[0], SymStr((Atom(n.v, tuple(bs)),))); return UNIT
    lo, hi = bounds(n.v)
    if hi > 4096: raise Unsupported('resize to a symbolic size without a small bound')
    bs = []
    for i in range(hi):
        old = f.bs[i] if i < f.cap else 0
        keep = bv_ult(i, f.ln, LW) if i < f.cap else False
        inside = bv_ult(i, n.v, LW)
        bs.append(ite_bv(inside, ite_bv(keep, old, v.v, 8), 0, 8))
    ex.store(st, c.args[0], SymStr((Atom(n.v, tuple(bs)),))); return UNIT


@model(r'^Vec::<u8>::split_off$', r'^String::split_off$')
def m_split_off(ex, st, c):
    a = D(ex, st, c.args[0]); at = D(ex, st, c.args[1])
    oob = bv_ult(a.length(), at.v, LW)
    if oob is True: return Panic('`at` split index out of bounds')
    return ForkStore([(oob, Panic('`at` split index out of bounds'), None), (b_not(oob), a.suffix_from(at.v), (c.args[0], a.substr(0, at.v)))])


@model(r'^Vec(::<.*>)?::drain$', r'^String::drain$')
def m_drain(ex, st, c):
    if 'RangeFull' not in c.callee: raise Unsupported('drain of a partial range')
    a = D(ex, st, c.args[0])
    ex.store(st, c.args[0], SymStr(()) if isinstance(a, SymStr) else Vec([]))
    it = to_iter(ex, st, a)
    if c.callee.startswith('String') and isinstance(it, Iter): it = Iter('vec', [char_of(x.v) for x in it.items])
    return it


@model(r'^core::slice::<impl \[u8\]>::chunks$')
def m_chunks(ex, st, c):
    a = D(ex, st, c.args[0]); n = _conc_n(D(ex, st, c.args[1]), 'chunks')
    if n == 0: return Panic('chunk size must be non-zero')
    f = a.flat()
    if not f.conc_len: raise Unsupported('chunks of a symbolic-length byte string')
    return Iter('vec', [a.substr(i, min(n, f.ln - i)) for i in range(0, f.ln, n)])


@model(r'^Vec::<.*>::dedup$')
def m_dedup(ex, st, c):
    a = D(ex, st, c.args[0])
    if isinstance(a, SymStr):
        cc = a.concrete()
        if cc is None: raise Unsupported('dedup of symbolic bytes')
        out = bytearray()
        for b in cc:
            if not out or out[-1] != b: out.append(b)
        ex.store(st, c.args[0], SymStr.const(bytes(out))); return UNIT
    raise Unsupported('dedup of %r' % (a,))


@model(r'^from_utf8$', r'^std::str::from_utf8$', r'^core::str::from_utf8$')
def m_str_from_utf8(ex, st, c):
    fn = ex.find_model('String::from_utf8')
    if fn is None: raise Unsupported('from_utf8')
    return fn(ex, st, c)


# ------------------------------------------------------------------ integers
INT_RE = r'(u8|u16|u32|u64|usize|u128|i8|i16|i32|i64|isize|i128)'


def _minmax(ty):
    w = WIDTH[ty]
    if ty in SIGNED: return -(1 << (w - 1)), (1 << (w - 1)) - 1
    return 0, (1 << w) - 1


@model(r'^core::num::<impl %s>::(wrapping_mul|saturating_mul|checked_div|checked_rem|checked_neg|checked_abs|abs|wrapping_abs|unsigned_abs|signum|is_negative|is_positive|rem_euclid|div_euclid|'
       r'overflowing_add|overflowing_sub|overflowing_mul|wrapping_neg|is_power_of_two|pow|checked_pow|wrapping_shl|wrapping_shr|checked_add|checked_sub|checked_mul|wrapping_add|wrapping_sub|saturating_add|saturating_sub|'
       r'min|max|abs_diff|clamp|wrapping_div|count_ones|leading_zeros|trailing_zeros)$' % INT_RE)
def m_int_more(ex, st, c):
    op = strip_generics(c.callee).rsplit('::', 1)[1]
    a = D(ex, st, c.args[0]); ty = a.ty; lo, hi = _minmax(ty); sg = ty in SIGNED
    b = D(ex, st, c.args[1]) if len(c.args) > 1 else None
    Z = Int(ty, 0)
    if op in ('wrapping_add', 'wrapping_sub', 'wrapping_mul'): return int_binop({'wrapping_add': 'AddUnchecked', 'wrapping_sub': 'SubUnchecked', 'wrapping_mul': 'MulUnchecked'}[op], a, b)
    if op in ('checked_add', 'checked_sub', 'checked_mul', 'overflowing_add', 'overflowing_sub', 'overflowing_mul', 'saturating_add', 'saturating_sub', 'saturating_mul'):
        base = op.split('_')[1]
        r, ov = int_binop({'add': 'AddWithOverflow', 'sub': 'SubWithOverflow', 'mul': 'MulWithOverflow'}[base], a, b)
        if op.startswith('checked'): return Fork([(ov, NONE), (b_not(ov), Some(r))]) if not isinstance(ov, bool) else (NONE if ov else Some(r))
        if op.startswith('overflowing'): return Tup((r, ov))
        if not sg: sat = Int(ty, hi if base != 'sub' else 0)
        else:
            # signed saturation: direction by the signs of the operands
            if base == 'add': neg = int_binop('Lt', b, Z)
            elif base == 'sub': neg = int_binop('Gt', b, Z)
            else: neg = b_not(b_eq(int_binop('Lt', a, Z), int_binop('Lt', b, Z))) if True else False
            sat = ite(neg, Int(ty, lo), Int(ty, hi))
        return ite(ov, sat, r)
    if op in ('min', 'max'):
        lt = int_binop('Lt', a, b); return ite(lt, a, b) if op == 'min' else ite(lt, b, a)
    if op == 'abs_diff':
        lt = int_binop('Lt', a, b)
        r = ite(lt, int_binop('SubUnchecked', b, a), int_binop('SubUnchecked', a, b))
        return int_cast_same_width(r, 'u' + ty[1:] if sg else ty)
    if op == 'clamp':
        mx = D(ex, st, c.args[2])
        bad = int_binop('Gt', b, mx)
        r = ite(int_binop('Lt', a, b), b, ite(int_binop('Gt', a, mx), mx, a))
        if bad is True: return Panic('assertion failed: min <= max')
        return r if bad is False else Fork([(bad, Panic('assertion failed: min <= max')), (b_not(bad), r)])
    if op in ('checked_div', 'checked_rem', 'wrapping_div', 'rem_euclid', 'div_euclid'):
        zero = int_binop('Eq', b, Int(ty, 0))
        ovf = b_and(int_binop('Eq', a, Int(ty, lo)), int_binop('Eq', b, Int(ty, -1))) if sg else False
        if op in ('checked_div', 'checked_rem'):
            bad = b_or(zero, ovf)
            if bad is True: return NONE
            r = int_binop('Div' if op == 'checked_div' else 'Rem', a, b)
            return Some(r) if bad is False else Fork([(bad, NONE), (b_not(bad), Some(r))])
        if zero is True: return Panic('attempt to divide by zero')
        if sg: raise Unsupported(op + ' on a signed type')
        r = int_binop('Div' if op in ('wrapping_div', 'div_euclid') else 'Rem', a, b)
        return r if zero is False else Fork([(zero, Panic('attempt to divide by zero')), (b_not(zero), r)])
    if op in ('checked_neg', 'wrapping_neg', 'checked_abs', 'abs', 'wrapping_abs', 'unsigned_abs', 'signum', 'is_negative', 'is_positive'):
        neg = int_binop('Lt', a, Z) if sg else False
        ismin = int_binop('Eq', a, Int(ty, lo)) if sg else False
        nega = int_binop('SubUnchecked', Z, a)
        if op == 'is_negative': return neg
        if op == 'is_positive': return int_binop('Gt', a, Z)
        if op == 'signum': return ite(neg, Int(ty, -1), ite(int_binop('Gt', a, Z), Int(ty, 1), Z))
        if op == 'wrapping_neg': return nega
        if op == 'checked_neg':
            bad = ismin if sg else b_not(int_binop('Eq', a, Z))
            if isinstance(bad, bool): return NONE if bad else Some(nega)
            return Fork([(bad, NONE), (b_not(bad), Some(nega))])
        absv = ite(neg, nega, a)
        if op == 'wrapping_abs': return absv
        if op == 'unsigned_abs': return int_cast_same_width(absv, 'u' + ty[1:])
        if op == 'checked_abs':
            if isinstance(ismin, bool): return NONE if ismin else Some(absv)
            return Fork([(ismin, NONE), (b_not(ismin), Some(absv))])
        if isinstance(ismin, bool): return Panic('attempt to negate with overflow') if ismin else absv
        return Fork([(ismin, Panic('attempt to negate with overflow')), (b_not(ismin), absv)])
    if op == 'is_power_of_two':
        if a.conc: return a.v != 0 and (a.v & (a.v - 1)) == 0
        return z3.And(a.v != 0, (a.v & (a.v - 1)) == 0)
    if op in ('pow', 'checked_pow'):
        e = _conc_n(b, 'pow')
        r = Int(ty, 1); ovs = []
        for _ in range(e):
            r, ov = int_binop('MulWithOverflow', r, a); ovs.append(ov)
        ov = b_or(*ovs) if ovs else False
        if op == 'checked_pow':
            if isinstance(ov, bool): return NONE if ov else Some(r)
            return Fork([(ov, NONE), (b_not(ov), Some(r))])
        if isinstance(ov, bool): return Panic('attempt to multiply with overflow') if ov else r
        return Fork([(ov, Panic('attempt to multiply with overflow')), (b_not(ov), r)])
    if op in ('wrapping_shl', 'wrapping_shr'):
        sh = _conc_n(b, op) % WIDTH[ty]
        return int_binop('ShlUnchecked' if op == 'wrapping_shl' else 'ShrUnchecked', a, Int('u32', sh))
    if op in ('count_ones', 'leading_zeros', 'trailing_zeros'):
        w = WIDTH[ty]
        if a.conc:
            v = a.v & ((1 << w) - 1)
            if op == 'count_ones': return Int('u32', bin(v).count('1'))
            if op == 'leading_zeros': return Int('u32', w - v.bit_length())
            return Int('u32', w if v == 0 else (v & -v).bit_length() - 1)
        raise Unsupported(op + ' of a symbolic value')
    raise Unsupported(op)


def int_cast_same_width(v, ty):
    """reinterpret an integer as the same-width type `ty` (value bits unchanged)"""
    if v.conc: return Int(ty, v.v & ((1 << WIDTH[ty]) - 1))
    return Int(ty, v.v)


@model(r'^<%s as TryFrom<%s>>::try_from$' % (INT_RE, INT_RE), r'^<%s as TryInto<%s>>::try_into$' % (INT_RE, INT_RE))
def m_try_from(ex, st, c):
    m = re.match(r'^<(\w+) as (TryFrom|TryInto)<(\w+)>>', c.callee)
    dst, src = (m.group(1), m.group(3)) if m.group(2) == 'TryFrom' else (m.group(3), m.group(1))
    a = D(ex, st, c.args[0])
    lo, hi = _minmax(dst)
    slo, shi = _minmax(src)
    conds = []
    if slo < lo: conds.append(int_binop('Lt', a, Int(src, lo)))
    if shi > hi: conds.append(int_binop('Gt', a, Int(src, hi)))
    bad = b_or(*conds) if conds else False
    r = int_cast(a, dst)
    if bad is False: return Ok(r)
    if bad is True: return Err(Opaque('TryFromIntError'))
    return Fork([(bad, Err(Opaque('TryFromIntError'))), (b_not(bad), Ok(r))])


@model(r'^<%s as From<(u8|u16|u32|i8|i16|i32|bool|char)>>::from$' % INT_RE)
def m_int_from(ex, st, c):
    m = re.match(r'^<(\w+) as From<(\w+)>>', c.callee)
    a = D(ex, st, c.args[0])
    if m.group(2) == 'bool':
        if isinstance(a, bool): return Int(m.group(1), 1 if a else 0)
        return Int(m.group(1), z3.If(a, z3.BitVecVal(1, WIDTH[m.group(1)]), z3.BitVecVal(0, WIDTH[m.group(1)])))
    return int_cast(a, m.group(1))


# ------------------------------------------------------------------ u8 / char classes
def _cls(name):
    return {
        'is_ascii_digit': lambda x: 48 <= x <= 57, 'is_ascii_alphabetic': lambda x: 65 <= x <= 90 or 97 <= x <= 122,
        'is_ascii_alphanumeric': lambda x: 48 <= x <= 57 or 65 <= x <= 90 or 97 <= x <= 122, 'is_ascii_uppercase': lambda x: 65 <= x <= 90,
        'is_ascii_lowercase': lambda x: 97 <= x <= 122, 'is_ascii_hexdigit': lambda x: 48 <= x <= 57 or 65 <= x <= 70 or 97 <= x <= 102,
        'is_ascii_whitespace': lambda x: x in (9, 10, 12, 13, 32), 'is_ascii_punctuation': lambda x: 33 <= x <= 47 or 58 <= x <= 64 or 91 <= x <= 96 or 123 <= x <= 126,
        'is_ascii_graphic': lambda x: 33 <= x <= 126, 'is_ascii_control': lambda x: x < 32 or x == 127, 'is_ascii': lambda x: x < 128,
    }[name]


@model(r'^core::num::<impl u8>::(is_ascii_\w+|is_ascii)$', r'^char::methods::<impl char>::(is_ascii_digit|is_ascii_alphabetic|is_ascii_uppercase|is_ascii_lowercase|is_ascii_hexdigit|is_ascii_whitespace|is_ascii_punctuation|is_ascii_graphic|is_ascii)$')
def m_ascii_class(ex, st, c):
    name = strip_generics(c.callee).rsplit('::', 1)[1]
    v = D(ex, st, c.args[0]); pred = _cls(name)
    if v.conc: return bool(v.v < 128 and pred(v.v)) if name != 'is_ascii' else v.v < 128
    w = v.v.size()
    res = z3.Or(*[v.v == z3.BitVecVal(x, w) for x in range(128) if pred(x)]) if any(pred(x) for x in range(128)) else False
    return MD._fold_class(res, v, lambda x: x < 128 and pred(x)) if v.ty == 'char' else _fold_u8(res, v, pred)


def _fold_u8(res, v, pred):
    d = byte_domain(v.v)
    if d:
        vals = [bool(x < 128 and pred(x)) for x in d]
        if all(vals): return True
        if not any(vals): return False
    return res


@model(r'^core::num::<impl u8>::(to_ascii_lowercase|to_ascii_uppercase)$', r'^char::methods::<impl char>::(to_ascii_lowercase|to_ascii_uppercase)$')
def m_ascii_case(ex, st, c):
    v = D(ex, st, c.args[0]); lowr = c.callee.endswith('lowercase')
    if v.conc:
        x = v.v
        if lowr and 65 <= x <= 90: x += 32
        if not lowr and 97 <= x <= 122: x -= 32
        return Int(v.ty, x)
    a, b = (65, 90) if lowr else (97, 122)
    return Int(v.ty, z3.If(z3.And(z3.UGE(v.v, a), z3.ULE(v.v, b)), v.v + 32 if lowr else v.v - 32, v.v))


@model(r'^core::num::<impl u8>::eq_ignore_ascii_case$', r'^char::methods::<impl char>::eq_ignore_ascii_case$')
def m_u8_eq_ignore_ascii_case(ex, st, c):
    # a.to_ascii_lowercase() == b.to_ascii_lowercase()  (std definition)
    a = D(ex, st, c.args[0]); b = D(ex, st, c.args[1])

    def low(v):
        if v.conc: return v.v + 32 if 65 <= v.v <= 90 else v.v
        return z3.If(z3.And(z3.UGE(v.v, 65), z3.ULE(v.v, 90)), v.v + 32, v.v)
    la, lb = low(a), low(b)
    if a.conc and b.conc: return la == lb
    w = (a.v if not a.conc else b.v).size()
    if a.conc: la = z3.BitVecVal(la, w)
    if b.conc: lb = z3.BitVecVal(lb, w)
    return la == lb


@model(r'^char::methods::<impl char>::to_digit$')
def m_to_digit(ex, st, c):
    v = D(ex, st, c.args[0]); radix = _conc_n(D(ex, st, c.args[1]), 'to_digit')
    if radix < 2 or radix > 36: return Panic('to_digit: invalid radix')
    if v.conc:
        ch = chr(v.v)
        d = int(ch, 36) if (ch.isascii() and ch.isalnum()) else None
        return Some(Int('u32', d)) if d is not None and d < radix else NONE
    x = v.v
    dig = z3.And(z3.UGE(x, 48), z3.ULE(x, 57)); low = z3.And(z3.UGE(x, 97), z3.ULE(x, 122)); up = z3.And(z3.UGE(x, 65), z3.ULE(x, 90))
    val = z3.If(dig, x - 48, z3.If(low, x - 87, x - 55))
    ok = z3.And(z3.Or(dig, low, up), z3.ULT(val, radix))
    return Fork([(ok, Some(Int('u32', val))), (z3.Not(ok), NONE)])


@model(r'^char::methods::<impl char>::from_digit$')
def m_from_digit(ex, st, c):
    v = D(ex, st, c.args[0]); radix = _conc_n(D(ex, st, c.args[1]), 'from_digit')
    if radix < 2 or radix > 36: return Panic('from_digit: invalid radix')
    if v.conc: return Some(Int('char', ord('0123456789abcdefghijklmnopqrstuvwxyz'[v.v]))) if v.v < radix else NONE
    ok = z3.ULT(v.v, radix)
    return Fork([(ok, Some(Int('char', z3.If(z3.ULT(v.v, 10), v.v + 48, v.v + 87)))), (z3.Not(ok), NONE)])


@model(r'^char::methods::<impl char>::from_u32$', r'^char::from_u32$', r'^std::char::from_u32$')
def m_from_u32(ex, st, c):
    v = D(ex, st, c.args[0])
    if v.conc: return Some(Int('char', v.v)) if (v.v < 0xD800 or 0xDFFF < v.v <= 0x10FFFF) else NONE
    ok = z3.Or(z3.ULT(v.v, 0xD800), z3.And(z3.UGT(v.v, 0xDFFF), z3.ULE(v.v, 0x10FFFF)))
    return Fork([(ok, Some(Int('char', v.v))), (z3.Not(ok), NONE)])


@model(r'^char::methods::<impl char>::len_utf8$')
def m_len_utf8(ex, st, c):
    v = D(ex, st, c.args[0])
    if v.conc: return usize(len(chr(v.v).encode('utf-8')))
    x = v.v
    return usize(z3.If(z3.ULT(x, 0x80), bvval(1, LW), z3.If(z3.ULT(x, 0x800), bvval(2, LW), z3.If(z3.ULT(x, 0x10000), bvval(3, LW), bvval(4, LW)))))


@model(r'^char::methods::<impl char>::(is_alphabetic|is_lowercase|is_uppercase)$')
def m_is_alpha(ex, st, c):
    v = D(ex, st, c.args[0]); name = c.callee.rsplit('::', 1)[1]
    f = {'is_alphabetic': str.isalpha, 'is_lowercase': str.islower, 'is_uppercase': str.isupper}[name]
    if v.conc: return f(chr(v.v))
    x = v.v
    up = z3.And(z3.UGE(x, 65), z3.ULE(x, 90)); lo = z3.And(z3.UGE(x, 97), z3.ULE(x, 122))
    res = {'is_alphabetic': z3.Or(up, lo), 'is_lowercase': lo, 'is_uppercase': up}[name]
    # non-ASCII characters: outside the encoded domain
    return Fork([(z3.ULT(x, 0x80), MD._fold_class(res, v, lambda y: f(chr(y)))), (z3.UGE(x, 0x80), StopR('domain:non-ascii', name))])


# ------------------------------------------------------------------ mem
@model(r'^std::mem::swap$', r'^core::mem::swap$', r'^mem::swap$')
def m_mem_swap(ex, st, c):
    a = D(ex, st, c.args[0]); b = D(ex, st, c.args[1])
    ex.store(st, c.args[0], b); ex.store(st, c.args[1], a); return UNIT


@model(r'^std::mem::replace$', r'^core::mem::replace$', r'^mem::replace$')
def m_mem_replace(ex, st, c):
    old = D(ex, st, c.args[0]); ex.store(st, c.args[0], c.args[1]); return old


@model(r'^std::mem::take$', r'^core::mem::take$', r'^mem::take$')
def m_mem_take(ex, st, c):
    old = D(ex, st, c.args[0])
    g = _gen_args(c.callee)
    if g:
        try: dflt = default_of(g[0])
        except Unsupported:
            if 'HashMap' in g[0]: dflt = Opaque('HashMap', ())
            else: raise
    elif isinstance(old, SymStr): dflt = SymStr(())
    elif isinstance(old, Vec): dflt = Vec([])
    elif isinstance(old, Int): dflt = Int(old.ty, 0)
    else: raise Unsupported('mem::take of %r' % (old,))
    ex.store(st, c.args[0], dflt); return old


@model(r'^(Rc|Arc)::<.*>::new$', r'^(std::rc::Rc|std::sync::Arc)::<.*>::new$')
def m_rc_new(ex, st, c): return c.args[0]


@model(r'^Option(::<.*>)?::(zip|iter|into_iter|take|replace)$', r'^Result(::<.*>)?::(iter|into_iter)$')
def m_option_more(ex, st, c):
    op = strip_generics(c.callee).rsplit('::', 1)[1]
    v = D(ex, st, c.args[0])
    if op in ('iter', 'into_iter'): return Iter('vec', [v.fields[0]] if v.variant in ('Some', 'Ok') else [])
    if op == 'zip':
        w = D(ex, st, c.args[1])
        return Some(Tup((v.fields[0], w.fields[0]))) if (v.variant == 'Some' and w.variant == 'Some') else NONE
    if op == 'take': ex.store(st, c.args[0], NONE); return v
    if op == 'replace': ex.store(st, c.args[0], Some(c.args[1])); return v
    raise Unsupported('Option::' + op)


def merged_search(ex, st, it, clo, op, recv):
    """any / all / position over a list whose elements are known: the predicate is applied to every element first (it normally
    does not fork), then the answer is assembled as one value (any/all: a boolean term; position: Some(first index) | None),
    instead of forking at every element"""
    items = list(it.items[it.pos:])

    def go(i, acc):
        if i == len(items): return fin(acc)

        def cont(e_, s_, r):
            r = simp_bool(r) if not isinstance(r, bool) else r
            if op in ('any', 'position') and r is True: return fin(acc + (r,))
            if op == 'all' and r is False: return fin(acc + (r,))
            return LazyR(lambda: go(i + 1, acc + (r,)))
        return CallFn(clo, [items[i]], cont)

    def fin(rs):
        if op == 'any': return b_or(*rs) if rs else False
        if op == 'all': return b_and(*rs) if rs else True
        found = b_or(*rs) if rs else False
        if found is False: return NONE
        idx = 0
        for i in range(len(rs) - 1, -1, -1):
            if rs[i] is False: continue
            idx = ite_bv(rs[i], i, idx, LW) if rs[i] is not True else i
        if found is True: return Some(usize(idx))
        return Fork([(found, Some(usize(idx))), (b_not(found), NONE)])
    return go(0, ())


# the older generic any/all/position model only knows base iterators: route adaptors to the CPS consumer
def _wrap_iter_any():
    old = MD.m_iter_any

    def m_iter_any2(ex, st, c):
        it = D(ex, st, c.args[0])
        if is_adapt(it) or (isinstance(it, Opaque) and it.tag in ('SplitN', 'StrLines', 'SplitIncl', 'Range', 'RangeInclusive')): return m_g_consume(ex, st, c)
        if isinstance(it, Iter) and len(it.items) - it.pos >= 4:
            return merged_search(ex, st, it, c.args[1], strip_generics(c.callee).rsplit('::', 1)[1], c.args[0])
        return old(ex, st, c)
    for i, (pat, fn) in enumerate(MD.REGISTRY):
        if fn is old: MD.REGISTRY[i] = (pat, m_iter_any2)
    MD.m_iter_any = m_iter_any2


_wrap_iter_any()


# ------------------------------------------------------------------ comparisons / arithmetic through references, string ordering
@model(r'^<&*(u8|u16|u32|u64|usize|u128|i8|i16|i32|i64|isize|i128|char|bool|str|String|\[u8\]|Vec<u8>)( as |.* as )PartialEq(<.*>)?>::(eq|ne)$')
def m_eq_refs(ex, st, c):
    r = MD.values_eq(ex, st, c.args[0], c.args[1])
    return b_not(r) if c.callee.endswith('::ne') else r


@model(r'^<&*%s as (std::ops::)?(Add|Sub|Mul|Div|Rem|BitAnd|BitOr|BitXor)<&*%s>>::(add|sub|mul|div|rem|bitand|bitor|bitxor)$' % (INT_RE, INT_RE))
def m_arith_refs(ex, st, c):
    op = re.search(r'as (?:std::ops::)?(\w+)<', c.callee).group(1)
    a = D(ex, st, c.args[0]); b = D(ex, st, c.args[1])
    if op in ('Add', 'Sub', 'Mul'):
        r, ov = int_binop(op + 'WithOverflow', a, b)
        msg = 'attempt to %s with overflow' % {'Add': 'add', 'Sub': 'subtract', 'Mul': 'multiply'}[op]
        if isinstance(ov, bool): return Panic(msg) if ov else r
        return Fork([(ov, Panic(msg)), (b_not(ov), r)])
    if op in ('Div', 'Rem'):
        zero = int_binop('Eq', b, Int(b.ty, 0))
        if a.ty in SIGNED: raise Unsupported('signed division through references')
        if zero is True: return Panic('attempt to divide by zero')
        r = int_binop(op, a, b)
        return r if zero is False else Fork([(zero, Panic('attempt to divide by zero')), (b_not(zero), r)])
    return int_binop(op, a, b)


@model(r'^<%s as Ord>::clamp$' % INT_RE)
def m_ord_clamp(ex, st, c):
    a = D(ex, st, c.args[0]); lo = D(ex, st, c.args[1]); hi = D(ex, st, c.args[2])
    bad = int_binop('Gt', lo, hi)
    r = ite(int_binop('Lt', a, lo), lo, ite(int_binop('Gt', a, hi), hi, a))
    if bad is True: return Panic('assertion failed: min <= max')
    return r if bad is False else Fork([(bad, Panic('assertion failed: min <= max')), (b_not(bad), r)])


def str_less(a, b, or_equal):
    """lexicographic byte order a < b (or a <= b)"""
    fa, fb = a.flat(), b.flat()
    n = max(fa.cap, fb.cap)
    res = or_equal if False else None
    # scan from the end: lt_i = (a_i < b_i) or (a_i == b_i and lt_{i+1}) with out-of-range bytes ordered below everything
    lt = bv_ult(fa.ln, fb.ln, LW) if not or_equal else bv_ule(fa.ln, fb.ln, LW)      # all common bytes equal: shorter first
    for i in range(n - 1, -1, -1):
        ain = bv_ult(i, fa.ln, LW) if i < fa.cap else False
        bin_ = bv_ult(i, fb.ln, LW) if i < fb.cap else False
        x = fa.bs[i] if i < fa.cap else 0; y = fb.bs[i] if i < fb.cap else 0
        both = b_and(ain, bin_)
        less = bv_ult(x, y, 8); eq = bv_eq(x, y, 8)
        here = b_or(b_and(both, less), b_and(both, eq, lt))
        # if one of them ends at i, the order is decided by the lengths (already in lt's base case through the chain)
        lt = b_or(here, b_and(b_not(both), (bv_ult(fa.ln, fb.ln, LW) if not or_equal else bv_ule(fa.ln, fb.ln, LW))))
    return lt


@model(r'^<&*(str|String) as PartialOrd(<.*>)?>::(lt|le|gt|ge)$', r'^<&*(str|String) as Ord>::cmp$')
def m_str_ord(ex, st, c):
    a = D(ex, st, c.args[0]); b = D(ex, st, c.args[1])
    op = c.callee.rsplit('::', 1)[1]
    ca, cb = a.concrete(), b.concrete()
    if op == 'cmp':
        if ca is None or cb is None: raise Unsupported('Ord::cmp on symbolic strings')
        return Enum('Ordering', 'Less' if ca < cb else 'Equal' if ca == cb else 'Greater', ())
    if ca is not None and cb is not None: return {'lt': ca < cb, 'le': ca <= cb, 'gt': ca > cb, 'ge': ca >= cb}[op]
    if op == 'lt': return str_less(a, b, False)
    if op == 'le': return str_less(a, b, True)
    if op == 'gt': return str_less(b, a, False)
    return str_less(b, a, True)


# ------------------------------------------------------------------ closure / fn-item patterns for find and split
def _pred_table(ex, st, s, clo, k):
    """apply a char predicate to every byte of a concrete-length string; k(list of results)"""
    f = s.flat()
    if not f.conc_len: raise Unsupported('closure pattern over a symbolic-length string')
    if f.ln > 128: raise Unsupported('closure pattern over a long string')
    return MD.closure_on_bytes(ex, clo, f, list(range(f.ln)), k)


def _wrap_find_split():
    old_find = MD.m_find

    def m_find2(ex, st, c):
        v = ex.deref(st, c.args[1])
        if isinstance(v, (Closure, FnItem)):
            s = D(ex, st, c.args[0])

            def done(bits):
                found = False; idx = 0
                for i in range(len(bits) - 1, -1, -1):
                    b = bits[i]
                    b = simp_bool(b) if not isinstance(b, bool) else b
                    if b is False: continue
                    idx = ite_bv(b, i, idx, LW); found = b_or(found, b)
                if found is False: return NONE
                if found is True: return Some(usize(idx))
                return Fork([(found, Some(usize(idx))), (b_not(found), NONE)])
            return _pred_table(ex, st, s, v, done)
        return old_find(ex, st, c)
    old_split = None
    for i, (pat, fn) in enumerate(MD.REGISTRY):
        if fn is old_find: MD.REGISTRY[i] = (pat, m_find2)
    MD.m_find = m_find2


_wrap_find_split()


def m_split_closure(ex, st, c):
    """str::split with a closure / fn-item pattern on a string whose separator positions are decidable (reached only when the
    older split model does not apply: registered with the lowest priority)"""
    v = ex.deref(st, c.args[1])
    if not isinstance(v, (Closure, FnItem)): raise Unsupported('split pattern %r' % (v,))
    s = D(ex, st, c.args[0])

    def done(bits):
        bits = [simp_bool(b) if not isinstance(b, bool) else b for b in bits]
        if not all(isinstance(b, bool) for b in bits): raise Unsupported('split by a closure whose result depends on symbolic bytes')
        pieces = []; start = 0
        for i, b in enumerate(bits):
            if b: pieces.append(s.substr(start, i - start)); start = i + 1
        pieces.append(s.substr(start, len(bits) - start))
        return Iter('vec', pieces)
    return _pred_table(ex, st, s, v, done)


def _wrap_split():
    old = MD.m_split

    def m_split2(ex, st, c):
        v = ex.deref(st, c.args[1])
        if isinstance(v, (Closure, FnItem)): return m_split_closure(ex, st, c)
        return old(ex, st, c)
    for i, (pat, fn) in enumerate(MD.REGISTRY):
        if fn is old: MD.REGISTRY[i] = (pat, m_split2)
    MD.m_split = m_split2


_wrap_split()


def _wrap_split_collect():
    old = MD.m_split_collect

    def m_split_collect2(ex, st, c):
        it = D(ex, st, c.args[0])
        if not (isinstance(it, Opaque) and it.tag == 'Split'): return m_g_consume(ex, st, c)
        return old(ex, st, c)
    for i, (pat, fn) in enumerate(MD.REGISTRY):
        if fn is old: MD.REGISTRY[i] = (pat, m_split_collect2)
    MD.m_split_collect = m_split_collect2


_wrap_split_collect()


# ------------------------------------------------------------------ the `?` operator
@model(r'^<(Result|Option)<.*> as (std::ops::)?Try>::branch$')
def m_try_branch(ex, st, c):
    v = D(ex, st, c.args[0])
    if not isinstance(v, Enum): raise Unsupported('Try::branch on %r' % (v,))
    if v.variant in ('Ok', 'Some'): return Enum('ControlFlow', 'Continue', (v.fields[0],))
    return Enum('ControlFlow', 'Break', (v,))       # the residual keeps the Err / None


@model(r'^<(Result|Option)<.*> as (std::ops::)?FromResidual<.*>>::from_residual$')
def m_from_residual(ex, st, c):
    r = D(ex, st, c.args[0])
    if c.callee.startswith('<Option<'): return NONE          # the residual of an Option is always None (a constant operand)
    if not isinstance(r, Enum): raise Unsupported('from_residual of %r' % (r,))
    if r.variant == 'None': return NONE
    if r.variant != 'Err': raise Unsupported('from_residual of %r' % (r.variant,))
    mm = re.match(r'^<Result<(.*)> as (?:std::ops::)?FromResidual<Result<(?:std::convert::)?Infallible, (.*)>>>::from_residual$', c.callee)
    if mm:
        parts = MD._gen_args('x::<' + mm.group(1) + '>')
        dst = parts[-1].strip() if parts else ''
        src = mm.group(2).strip()
        if dst != src:
            conv = '<%s as From<%s>>::from' % (dst, src)
            fn = ex.find_model(conv)
            if fn is not None:
                return CallFn(FnItem(conv), [r.fields[0]], lambda e_, s_, x: Err(x)) if False else Err(fn(ex, st, Call(conv, [r.fields[0]], None, c.fr)))
            tgt = ex.prog.get(conv, c.fr.fn.crate) if hasattr(ex, 'prog') else None
            if tgt is None: raise Unsupported('error conversion %s in `?`' % conv)
            return CallFn(tgt, [r.fields[0]], lambda e_, s_, x: Err(x))
    return Err(r.fields[0])


@model(r'^core::bool::<impl bool>::(then|then_some)$')
def m_bool_then(ex, st, c):
    b = D(ex, st, c.args[0])
    lazy = strip_generics(c.callee).endswith('::then')
    if lazy:
        yes = lambda: CallFn(c.args[1], [], lambda e_, s_, r: Some(r))
    else:
        yes = lambda: Some(c.args[1])
    return _branch(b, yes, lambda: NONE)


def _wrap_when_adapt(name, generic):
    old = getattr(MD, name)

    def wrapped(ex, st, c):
        it = D(ex, st, c.args[0])
        if is_adapt(it): return generic(ex, st, c)
        return old(ex, st, c)
    for i, (pat, fn) in enumerate(MD.REGISTRY):
        if fn is old: MD.REGISTRY[i] = (pat, wrapped)
    setattr(MD, name, wrapped)


_wrap_when_adapt('m_enum_next', m_g_next)
_wrap_when_adapt('m_iter_next', m_g_next)
_wrap_when_adapt('m_split_next', m_g_next)


# ------------------------------------------------------------------ calling a closure / fn item through the Fn traits
@model(r'^<.* as Fn(Mut|Once)?<.*>>::call(_mut|_once)?$')
def m_fn_call(ex, st, c):
    f = ex.deref(st, c.args[0])
    tup = D(ex, st, c.args[1]) if len(c.args) > 1 else UNIT
    args = list(tup.items) if isinstance(tup, Tup) else []
    if not isinstance(f, (Closure, FnItem)): raise Unsupported('call of %r' % (f,))
    return CallFn(f, args, lambda e_, s_, r: r)


@model(r'^(Option|Result)(::<.*>)?::(as_mut|as_deref_mut)$')
def m_as_mut(ex, st, c):
    r = c.args[0]
    v = D(ex, st, r)
    if not isinstance(v, Enum): raise Unsupported('as_mut on %r' % (v,))
    if v.variant in ('None',): return NONE
    if not isinstance(r, MutRef): raise Unsupported('as_mut through %r' % (r,))
    inner = MutRef(r.fid, r.local, tuple(r.path) + (('dc', v.variant), ('f', 0, None)))
    if v.variant == 'Some': return Some(inner)
    if v.variant == 'Ok': return Ok(inner)
    return Err(inner)


@model(r'^<Vec<.*> as Extend<.*>>::extend$', r'^Vec(::<.*>)?::(append|extend_from_slice)$')
def m_vec_extend(ex, st, c):
    a = D(ex, st, c.args[0])
    op = strip_generics(c.callee).rsplit('::', 1)[1]
    src = D(ex, st, c.args[1])
    if isinstance(a, SymStr):
        if isinstance(src, SymStr): add = src
        else:
            it = lazy_of(ex, st, src)
            return _consume(ex, st, it, lambda acc, x, i: acc + (x,), lambda acc: _WithStore(UNIT, (c.args[0], a.concat(_finish_collect(ex, st, 'Vec<u8>', acc)))), ())
        ex.store(st, c.args[0], a.concat(add))
        if op == 'append': ex.store(st, c.args[1], SymStr(()))
        return UNIT
    if not isinstance(a, Vec): raise Unsupported('extend of %r' % (a,))
    if isinstance(src, Vec):
        ex.store(st, c.args[0], Vec(list(a.items) + list(src.items)))
        if op == 'append': ex.store(st, c.args[1], Vec([]))
        return UNIT
    it = lazy_of(ex, st, src)
    return _consume(ex, st, it, lambda acc, x, i: acc + (x,), lambda acc: _WithStore(UNIT, (c.args[0], Vec(list(a.items) + list(acc)))), ())
