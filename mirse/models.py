"""Models ("stubs") for std / environment callees.  Every model is part of the claim of any check that uses it;
the executor records the names of the models a run actually used and the checks list them in their evidence.

Domain conventions (stated in DESIGN.md): `String`/`&str` values are ASCII on every explored path -- non-ASCII text
can only enter through String::from_utf8 (3-way split: all-ASCII / invalid / valid-but-non-ASCII -> terminal
'domain:non-ascii') or through harness inputs, which the harnesses constrain.  Under that convention a char is a byte.
"""
import re
import z3
from .sym import *
from .engine import *

REGISTRY = []


def model(*patterns):
    def deco(fn):
        for p in patterns:
            REGISTRY.append((re.compile(p), fn))
        return fn
    return deco


def D(ex, st, v):
    return ex.deref(st, v)


def as_str(ex, st, v):
    """pattern / string-like argument -> SymStr"""
    v = ex.deref(st, v)
    if isinstance(v, SymStr): return v
    if isinstance(v, Int) and v.ty in ('char', 'u8'):
        if v.conc:
            return SymStr.const(chr(v.v).encode('utf-8') if v.ty == 'char' else bytes([v.v]))
        return SymStr((Atom(1, (z3.Extract(7, 0, v.v) if v.ty == 'char' else v.v,)),))
    raise Unsupported('expected string-like, got %r' % (v,))


def usize(v): return Int('usize', v)


def opaque_msg(ex, st, tag):
    """text of a std error message: arbitrary printable ASCII without CR/LF, <= 8 bytes (stated assumption)"""
    if ex.concrete_messages:
        return SymStr.const('<%s>' % tag)
    cons = []
    s = SymStr.fresh(ex.fresh('msg_' + tag), 8, cons, alphabet=lambda b: z3.And(z3.UGE(b, 0x20), z3.ULE(b, 0x7e)))
    st.pc.extend(cons)
    return s


# ------------------------------------------------------------------ identity-like
@model(r'^<(str|String|&str|&String) as ToString>::to_string$', r'^String::as_str$', r'^<String as Deref>::deref$',
       r'^String::as_bytes$', r'^core::str::<impl str>::as_bytes$', r'^<String as Clone>::clone$',
       r'^<String as From<&str>>::from$', r'^<String as From<&String>>::from$', r'^<str as ToOwned>::to_owned$',
       r'^<Vec<u8> as From<&\[u8\]>>::from$', r'^<Vec<u8> as From<&str>>::from$', r'^slice::<impl \[u8\]>::to_vec$',
       r'^<Vec<.*> as Deref>::deref$', r'^<Vec<.*> as Clone>::clone$', r'^String::into_bytes$',
       r'^<Vec<u8> as AsRef<\[u8\]>>::as_ref$', r'^<Vec<u8> as Borrow<\[u8\]>>::borrow$', r'^<String as AsRef<str>>::as_ref$',
       r'^<String as Borrow<str>>::borrow$', r'^must_use$', r'^Vec::as_slice$', r'^<Option<.*> as Clone>::clone$',
       r'^<Result<.*> as Clone>::clone$', r'^slice::<impl \[.*\]>::to_vec$', r'^<&str as Into<String>>::into$',
       r'^<String as Into<String>>::into$', r'^<(u8|u16|u32|u64|usize|i16|i32|i64|bool|char) as Clone>::clone$',
       r'^<Cow<.*> as ToString>::to_string$', r'^Cow::<.*>::into_owned$', r'^<Cow<.*> as Deref>::deref$', r'^<Vec<.*> as AsRef<.*>>::as_ref$',
       r'^PathBuf::as_path$', r'^<PathBuf as Deref>::deref$', r'^<str as AsRef<.*>>::as_ref$', r'^<String as AsRef<.*>>::as_ref$',
       r'^Path::new$', r'^PathBuf::from$', r'^<PathBuf as From<.*>>::from$', r'^<&T as .*Clone>::clone$',
       r'^<.* as Into<.*>>::into$', r'^<.* as Clone>::clone$', r'^core::str::<impl str>::to_owned$', r'^std::string::String::from$',
       r'^<.* as IntoIterator>::into_iter$' + '(?#iter)')
def m_identity(ex, st, c):
    v = D(ex, st, c.args[0])
    if c.callee.endswith('::into_iter'):
        return to_iter(ex, st, v, c.callee)
    return v


@model(r'^<Vec<.*> as DerefMut>::deref_mut$', r'^<String as DerefMut>::deref_mut$', r'^Vec::<.*>::as_mut_slice$')
def m_deref_mut(ex, st, c): return c.args[0]


@model(r'^String::len$', r'^core::str::<impl str>::len$', r'^Vec::len$', r'^core::slice::<impl \[.*\]>::len$')
def m_len(ex, st, c):
    v = D(ex, st, c.args[0])
    if isinstance(v, SymStr): return usize(v.length())
    if isinstance(v, Vec): return usize(len(v.items))
    raise Unsupported('len of %r' % (v,))


@model(r'^String::is_empty$', r'^core::str::<impl str>::is_empty$', r'^Vec::is_empty$', r'^core::slice::<impl \[.*\]>::is_empty$')
def m_is_empty(ex, st, c):
    v = D(ex, st, c.args[0])
    if isinstance(v, SymStr): return bv_eq(v.length(), 0, LW)
    if isinstance(v, Vec): return len(v.items) == 0
    raise Unsupported('is_empty of %r' % (v,))


@model(r'^String::new$')
def m_string_new(ex, st, c): return SymStr(())


@model(r'^String::with_capacity$')
def m_string_with_capacity(ex, st, c):
    n = D(ex, st, c.args[0])
    too_big = int_binop('Gt', n, Int(n.ty, (1 << 63) - 1))
    if too_big is False: return SymStr(())
    return Fork([(too_big, Panic('capacity overflow')), (b_not(too_big), SymStr(()))])


@model(r'^Vec::new$', r'^Vec::with_capacity$')
def m_vec_new(ex, st, c):
    if 'with_capacity' in c.callee and c.args:
        n = D(ex, st, c.args[0])
        if isinstance(n, Int):
            isbytes = re.match(r'^Vec::<u8>::', c.callee) or (c.dest_ty and re.match(r'^std::vec::Vec<u8>$', c.dest_ty))
            empty = SymStr(()) if isbytes else Vec(())
            too_big = int_binop('Gt', n, Int(n.ty, (1 << 63) - 1))      # capacity in bytes must not exceed isize::MAX (elements are >= 1 byte)
            if too_big is False: return empty
            return Fork([(too_big, Panic('capacity overflow')), (b_not(too_big), empty)])
    if re.match(r'^Vec::<u8>::', c.callee): return SymStr(())
    if c.dest_ty and re.match(r'^std::vec::Vec<u8>$', c.dest_ty): return SymStr(())
    return Vec(())


@model(r'^std::vec::from_elem$')
def m_from_elem(ex, st, c):
    v, n = c.args[0], D(ex, st, c.args[1])
    if not n.conc: raise Unsupported('from_elem symbolic count')
    if isinstance(v, Int) and v.ty == 'u8': return SymStr.from_bytes_list([v.v] * n.v)
    return Vec([v] * n.v)


@model(r'^Box::<\[.*\]>::new_uninit$')
def m_box_uninit(ex, st, c):
    hid = len(st.heap) + 1
    st.heap[hid] = UNINIT
    return BoxPtr(hid)


@model(r'^std::boxed::box_assume_init_into_vec_unsafe$')
def m_box_into_vec(ex, st, c):
    v = st.heap[c.args[0].hid]
    if isinstance(v, Uninit): raise Unsupported('box_assume_init on uninit')
    return v


@model(r'^Box::<.*>::new$', r'^Box::new$')
def m_box_new(ex, st, c): return c.args[0]


# ------------------------------------------------------------------ mutation of String / Vec
@model(r'^String::push_str$', r'^Vec::<u8>::extend_from_slice$', r'^<Vec<u8> as Extend<u8>>::extend$', r'^<Vec<u8> as Extend<&u8>>::extend$')
def m_push_str(ex, st, c):
    cur = D(ex, st, c.args[0]); add = D(ex, st, c.args[1])
    if isinstance(add, Iter): add = Vec(add.items[add.pos:])
    if isinstance(add, Vec): add = SymStr.from_bytes_list([D(ex, st, x).v for x in add.items])
    if isinstance(cur, Vec) and not cur.items: cur = SymStr(())
    ex.store(st, c.args[0], cur.concat(add)); return UNIT


@model(r'^String::push$')
def m_string_push(ex, st, c):
    cur = D(ex, st, c.args[0]); ex.store(st, c.args[0], cur.concat(as_str(ex, st, c.args[1]))); return UNIT


@model(r'^Vec::push$')
def m_vec_push(ex, st, c):
    cur = D(ex, st, c.args[0]); x = c.args[1]
    if isinstance(cur, SymStr):
        x = D(ex, st, x)
        ex.store(st, c.args[0], cur.concat(SymStr((Atom(1, (x.v,)),)))); return UNIT
    ex.store(st, c.args[0], Vec(cur.items + (x,))); return UNIT


@model(r'^Vec::append$')
def m_vec_append(ex, st, c):
    a = D(ex, st, c.args[0]); b = D(ex, st, c.args[1])
    if isinstance(a, SymStr):
        ex.store(st, c.args[0], a.concat(b)); ex.store(st, c.args[1], SymStr(()))
    else:
        ex.store(st, c.args[0], Vec(a.items + b.items)); ex.store(st, c.args[1], Vec(()))
    return UNIT


@model(r'^Vec::pop$')
def m_vec_pop(ex, st, c):
    a = D(ex, st, c.args[0])
    if isinstance(a, Vec):
        if not a.items: return NONE
        ex.store(st, c.args[0], Vec(a.items[:-1])); return Some(a.items[-1])
    n = a.length()
    if isinstance(n, int):
        if n == 0: return NONE
        f = a.flat(); ex.store(st, c.args[0], a.substr(0, n - 1)); return Some(Int('u8', f.bs[n - 1]))
    f = a.flat()
    last = f.byte_at(f.ln - 1)
    ref = c.args[0]

    def some(ex_, st_):
        pass
    # fork: empty / non-empty.  The store must happen on the non-empty branch only -> use closures via CallLater
    return ForkStore([(n == 0, NONE, None), (n != 0, Some(Int('u8', last)), (ref, a.substr(0, n - 1)))])


class ForkStore(Fork):
    """fork whose alternatives also perform a store through a &mut when chosen: (cond, value, (ref, newval) | None)"""

    def __init__(s, alts3):
        s.alts = [(c, _WithStore(v, sr)) for c, v, sr in alts3]


class _WithStore:
    def __init__(s, v, sr): s.v = v; s.sr = sr


@model(r'^Vec::remove$')
def m_vec_remove(ex, st, c):
    a = D(ex, st, c.args[0]); i = D(ex, st, c.args[1])
    if not i.conc and isinstance(a, SymStr):
        n = a.length()
        oob = bv_ule(n, i.v, LW)
        rest = a.take(i.v).concat(a.drop(bv_add(i.v, 1, LW)))
        return ForkStore([(oob, Panic('Vec::remove index out of bounds'), None),
                          (b_not(oob), Int('u8', a.flat().byte_at(i.v)), (c.args[0], rest))])
    if not i.conc: raise Unsupported('Vec::remove symbolic index')
    if isinstance(a, Vec):
        if i.v >= len(a.items): return Panic('Vec::remove index out of bounds')
        ex.store(st, c.args[0], Vec(a.items[:i.v] + a.items[i.v + 1:])); return a.items[i.v]
    n = a.length()
    oob = bv_ule(n, i.v, LW)
    f = a.flat()
    rest = a.substr(0, i.v).concat(a.suffix_from(i.v + 1)) if oob is not True else None
    return ForkStore([(oob, Panic('Vec::remove index out of bounds'), None),
                      (b_not(oob), Int('u8', f.byte_at(i.v)), (c.args[0], rest))])


@model(r'^String::remove$')
def m_string_remove(ex, st, c):
    r = m_vec_remove(ex, st, c)
    if isinstance(r, ForkStore):
        r.alts = [(cd, _WithStore(Int('char', z3.ZeroExt(24, w.v.v) if not w.v.conc else w.v.v), w.sr) if isinstance(w.v, Int) else w) for cd, w in r.alts]
        return r
    if isinstance(r, Int): return Int('char', r.v if r.conc else z3.ZeroExt(24, r.v))
    return r


@model(r'^slice::<impl \[.*\]>::sort_by$', r'^slice::<impl \[.*\]>::sort$', r'^slice::<impl \[.*\]>::sort_unstable$', r'^slice::<impl \[.*\]>::sort_by_key$')
def m_sort(ex, st, c):
    v = D(ex, st, c.args[0])
    if isinstance(v, Vec) and len(v.items) <= 1: return UNIT
    raise Unsupported('sort of %d elements (only 0/1-element slices are modelled)' % (len(v.items) if isinstance(v, Vec) else -1))


@model(r'^Vec::<.*>::clear$', r'^String::clear$', r'^Vec::clear$')
def m_clear(ex, st, c):
    a = D(ex, st, c.args[0])
    ex.store(st, c.args[0], SymStr(()) if isinstance(a, SymStr) else Vec(())); return UNIT


@model(r'^Vec::truncate$', r'^String::truncate$')
def m_truncate(ex, st, c):
    a = D(ex, st, c.args[0]); n = D(ex, st, c.args[1])
    if isinstance(a, Vec):
        if not n.conc: raise Unsupported('truncate symbolic')
        ex.store(st, c.args[0], Vec(a.items[:n.v])); return UNIT
    ln = a.length()
    # String::truncate panics when the new length is not on a char boundary (only possible with non-ASCII text in the domain)
    ncb = False
    if c.callee.startswith('String') and getattr(ex, 'allow_non_ascii', False):
        ncb = b_and(bv_ult(n.v, ln, LW), not_char_boundary(ex, a, n.v))
    if n.conc and isinstance(ln, int):
        res = a.substr(0, min(n.v, ln))
    else:
        keep = ite_bv(bv_ult(n.v, ln, LW), n.v, ln, LW)
        res = a.substr(0, keep)
    if ncb is False:
        ex.store(st, c.args[0], res); return UNIT
    if ncb is True: return Panic('assertion failed: self.is_char_boundary(new_len)')
    return ForkStore([(ncb, Panic('assertion failed: self.is_char_boundary(new_len)'), None), (b_not(ncb), UNIT, (c.args[0], res))])


# ------------------------------------------------------------------ equality
def values_eq(ex, st, a, b):
    a = D(ex, st, a); b = D(ex, st, b)
    if isinstance(a, SymStr) and isinstance(b, SymStr): return a.eq(b)
    if isinstance(a, Int) and isinstance(b, Int): return int_binop('Eq', a, b)
    if isinstance(a, (bool,)) or isinstance(b, bool) or (hasattr(a, 'sort') and z3.is_bool(a)): return b_eq(a, b)
    if isinstance(a, Vec) and isinstance(b, Vec):
        if len(a.items) != len(b.items): return False
        return b_and(*[values_eq(ex, st, x, y) for x, y in zip(a.items, b.items)])
    if isinstance(a, Tup) and isinstance(b, Tup):
        return b_and(*[values_eq(ex, st, x, y) for x, y in zip(a.items, b.items)])
    if isinstance(a, Struct) and isinstance(b, Struct):
        return b_and(*[values_eq(ex, st, x, y) for x, y in zip(a.fields, b.fields)])
    if isinstance(a, Enum) and isinstance(b, Enum):
        if a.variant != b.variant: return False
        return b_and(*[values_eq(ex, st, x, y) for x, y in zip(a.fields, b.fields)])
    raise Unsupported('eq of %r and %r' % (a, b))


@model(r'^<(&?&?String|&?&?str|Vec<u8>|&?\[u8\]|&?\[u8; \d+\]|Vec<String>|Vec<&str>|&?u8|&?i16|&?i32|&?u64|&?usize|&?char|&?bool|Option<String>|Option<&str>) as PartialEq(<.*>)?>::eq$')
def m_eq(ex, st, c): return values_eq(ex, st, c.args[0], c.args[1])


@model(r'^<(&?&?String|&?&?str|Vec<u8>|&?\[u8\]|Vec<String>|Vec<&str>|&?u8|&?i16|&?i32|&?u64|&?usize|&?char|&?bool|Option<String>) as PartialEq(<.*>)?>::ne$')
def m_ne(ex, st, c): return b_not(values_eq(ex, st, c.args[0], c.args[1]))


@model(r'^<&(usize|u64|i32|u8) as PartialOrd>::(gt|lt|ge|le)$')
def m_ord(ex, st, c):
    op = {'gt': 'Gt', 'lt': 'Lt', 'ge': 'Ge', 'le': 'Le'}[c.callee.rsplit('::', 1)[1]]
    return int_binop(op, D(ex, st, c.args[0]), D(ex, st, c.args[1]))


@model(r'^<&bool as Not>::not$')
def m_not(ex, st, c): return b_not(D(ex, st, c.args[0]))


@model(r'^<&?u8 as BitAnd<&?u8>>::bitand$', r'^<&u8 as BitAnd<u8>>::bitand$')
def m_bitand(ex, st, c): return int_binop('BitAnd', D(ex, st, c.args[0]), D(ex, st, c.args[1]))


@model(r'^<&?u8 as Shr<i32>>::shr$', r'^<&?u8 as Shl<i32>>::shl$')
def m_shift(ex, st, c):
    a = D(ex, st, c.args[0]); b = D(ex, st, c.args[1])
    op = 'Shr' if '::shr' in c.callee else 'Shl'
    if b.conc and b.signed_val() >= 8 or (b.conc and b.signed_val() < 0): return Panic('attempt to shift with overflow')
    return int_binop(op, a, b)


# ------------------------------------------------------------------ string predicates / search
def match_at_general(s, i, pat):
    """pattern with possibly symbolic length at concrete index i"""
    pf = pat.flat()
    if pf.conc_len: return s.match_at(i, pat)
    f = s.flat()
    cs = [bv_ule(bv_add(pf.ln, i, LW), f.ln, LW)]
    for k in range(pf.cap):
        sb = f.bs[i + k] if i + k < f.cap else 0
        cs.append(b_or(bv_ule(pf.ln, k, LW), bv_eq(sb, pf.bs[k], 8)))
    # pattern longer than what fits in s's capacity cannot match
    if i + pf.cap > f.cap: cs.append(bv_ule(pf.ln, f.cap - i, LW))
    return b_and(*cs)


def find_general(s, pat, start=0):
    pf = pat.flat()
    if pf.conc_len: return s.find(pat, start)
    f = s.flat()
    ms = [(i, match_at_general(s, i, pat)) for i in range(start, f.cap + 1)]
    ms = [(i, m) for i, m in ms if m is not False]
    found = b_or(*[m for _, m in ms])
    idx = 0
    for i, m in reversed(ms): idx = i if m is True else ite_bv(m, i, idx, LW)
    return found, idx


@model(r'^core::str::<impl str>::contains$', r'^core::slice::<impl \[u8\]>::contains$')
def m_contains(ex, st, c):
    s = D(ex, st, c.args[0])
    if isinstance(s, Vec):
        return b_or(*[values_eq(ex, st, x, c.args[1]) for x in s.items])
    p = as_str(ex, st, c.args[1])
    return find_general(s, p)[0]


@model(r'^core::slice::<impl \[.*\]>::contains$')
def m_slice_contains(ex, st, c):
    s = D(ex, st, c.args[0])
    if isinstance(s, SymStr): return find_general(s, as_str(ex, st, c.args[1]))[0]
    return b_or(*[values_eq(ex, st, x, c.args[1]) for x in s.items])


@model(r'^core::str::<impl str>::starts_with$', r'^core::slice::<impl \[u8\]>::starts_with$')
def m_starts_with(ex, st, c):
    s = D(ex, st, c.args[0])
    if 'str' in c.callee:
        kind, p = byte_pattern(ex, st, c.args[1])
        if kind != 'str': return _edge_byte_matches(ex, s, kind, p, first=True)
    p = as_str(ex, st, c.args[1])
    return match_at_general(s, 0, p)


def _edge_byte_matches(ex, s, kind, p, first):
    f = s.flat()
    if f.cap == 0: return False
    nonempty = b_not(bv_eq(f.ln, 0, LW))
    if first: b = f.bs[0]
    else:
        b = f.bs[0]
        for i in range(1, f.cap): b = ite_bv(bv_eq(f.ln, i + 1, LW), f.bs[i], b, 8)
    if kind == 'set': return b_and(nonempty, in_set(p)(b))
    ch = Int('char', b if isinstance(b, int) else z3.ZeroExt(24, b))
    return Fork([(b_not(nonempty), False), (nonempty, LazyR(lambda: CallFn(p, [ch], lambda ex_, st_, r: r)))])


@model(r'^core::str::<impl str>::ends_with$', r'^core::slice::<impl \[u8\]>::ends_with$')
def m_ends_with(ex, st, c):
    s = D(ex, st, c.args[0])
    if 'str' in c.callee:
        kind, p = byte_pattern(ex, st, c.args[1])
        if kind != 'str': return _edge_byte_matches(ex, s, kind, p, first=False)
    p = as_str(ex, st, c.args[1])
    pf = p.flat()
    if pf.conc_len: return s.ends_with(p)
    f = s.flat(); alts = []
    for i in range(0, f.cap + 1):
        alts.append(b_and(bv_eq(f.ln, bv_add(pf.ln, i, LW), LW), match_at_general(s, i, p)))
    return b_or(*alts)


def split_once_parts(s, p, found, idx):
    pl = p.length()
    left = s.substr(0, idx)
    right = s.suffix_from(bv_add(idx, pl, LW))
    return left, right


@model(r'^core::str::<impl str>::split_once$')
def m_split_once(ex, st, c):
    s = D(ex, st, c.args[0]); p = as_str(ex, st, c.args[1])
    found, idx = find_general(s, p)
    if found is False: return NONE
    left, right = split_once_parts(s, p, found, idx)
    return Fork([(found, Some(Tup((left, right)))), (b_not(found), NONE)])


@model(r'^core::str::<impl str>::find$')
def m_find(ex, st, c):
    s = D(ex, st, c.args[0]); p = as_str(ex, st, c.args[1])
    found, idx = find_general(s, p)
    return Fork([(found, Some(usize(idx))), (b_not(found), NONE)])


@model(r'^core::str::<impl str>::strip_prefix$')
def m_strip_prefix(ex, st, c):
    s = D(ex, st, c.args[0]); p = as_str(ex, st, c.args[1])
    m = match_at_general(s, 0, p)
    return Fork([(m, Some(s.suffix_from(p.length())) if m is not False else NONE), (b_not(m), NONE)])


def split_all(ex, st, s, p, limit=None):
    """split s by concrete-length-or-symbolic pattern p -> Fork over the number of pieces"""
    alts = []
    pieces = []; cur = s; cond = True
    maxn = (s.cap // max(1, p.flat().minlen if not p.flat().conc_len else max(1, p.flat().ln))) + 1
    if p.flat().conc_len and p.flat().ln == 0: raise Unsupported('split by empty pattern')
    for k in range(maxn + 1):
        found, idx = find_general(cur, p)
        alts.append((b_and(cond, b_not(found)), Vec(pieces + [cur])))
        if found is False: break
        left, right = split_once_parts(cur, p, found, idx)
        pieces = pieces + [left]; cond = b_and(cond, found); cur = right
        if k == maxn: alts.append((cond, StopR('bound:split', 'more than %d pieces' % maxn)))
    return Fork(alts)


@model(r'^core::str::<impl str>::split$')
def m_split(ex, st, c):
    s = D(ex, st, c.args[0]); p = as_str(ex, st, c.args[1])
    return Opaque('Split', (s, p))


@model(r"^<std::str::Split<'_, .*> as Iterator>::collect$")
def m_split_collect(ex, st, c):
    s, p = D(ex, st, c.args[0]).data
    if s is None: return Vec(())
    return split_all(ex, st, s, p)


def pure_next(ex, st, it):
    """one step of a lazily evaluated iterator value -> list of (cond, item | None, new iterator value)"""
    if isinstance(it, Iter):
        if it.pos >= len(it.items): return [(True, None, it)]
        return [(True, it.items[it.pos], Iter(it.kind, it.items, it.pos + 1, it.extra))]
    if isinstance(it, Opaque) and it.tag == 'Split':
        rest, p = it.data
        if rest is None: return [(True, None, it)]
        found, idx = find_general(rest, p)
        if found is False: return [(True, rest, Opaque('Split', (None, p)))]
        left, right = split_once_parts(rest, p, found, idx)
        return [(found, left, Opaque('Split', (right, p))), (b_not(found), rest, Opaque('Split', (None, p)))]
    if isinstance(it, Opaque) and it.tag == 'Windows':
        v, n = it.data[0], it.data[1]
        pos = it.data[2] if len(it.data) > 2 else 0
        if not n.conc: raise Unsupported('windows of symbolic size')
        if isinstance(v, Vec):
            if pos + n.v > len(v.items): return [(True, None, it)]
            return [(True, Vec(v.items[pos:pos + n.v]), Opaque('Windows', (v, n, pos + 1)))]
        ln = v.length()
        fits = bv_ule(pos + n.v, ln, LW)
        if fits is False: return [(True, None, it)]
        w = v.substr(pos, n.v)
        return [(fits, w, Opaque('Windows', (v, n, pos + 1))), (b_not(fits), None, it)]
    if isinstance(it, Opaque) and it.tag in ('Chars', 'Bytes'):
        s_, pos = it.data
        n = s_.length(); oob = bv_ule(n, pos, LW)
        b = s_.byte_at(pos) if isinstance(pos, int) else s_.flat().byte_at(pos)
        item = char_of(b) if it.tag == 'Chars' else Int('u8', b)
        return [(oob, None, it), (b_not(oob), item, Opaque(it.tag, (s_, bv_add(pos, 1, LW))))]
    raise Unsupported('lazy next over %r' % (it,))


def split_any_all(ex, st, s, sep, clo, kind):
    """s.split(<one byte>).any/all(closure) without forking on the segmentation: every candidate segment [i, j) is
    passed to the closure (concrete length, so cheap) and the results are combined under 'is a segment' guards"""
    f = s.flat(); n = f.cap
    pairs = [(i, j) for i in range(n + 1) for j in range(i, n + 1)]
    issep = [bv_eq(b, sep, 8) for b in f.bs]

    def is_seg(i, j):
        cs = [bv_ule(j, f.ln, LW)]
        if i > 0: cs.append(issep[i - 1])
        cs.append(b_or(bv_eq(f.ln, j, LW), b_and(bv_ult(j, f.ln, LW), issep[j]) if j < n else False))
        for k in range(i, j): cs.append(b_not(issep[k]))
        return b_and(*cs)

    def step(k, acc):
        while k < len(pairs):
            i, j = pairs[k]
            g = is_seg(i, j)
            if g is False: k += 1; continue
            seg = SymStr((Atom(j - i, f.bs[i:j]),))

            def cont(ex_, st_, r, k=k, g=g, acc=acc):
                term = b_and(g, r) if kind == 'any' else b_and(g, b_not(r))
                return LazyR(lambda: step(k + 1, b_or(acc, term)))
            return CallFn(clo, [seg], cont)
        return acc if kind == 'any' else b_not(acc)
    return step(0, False)


@model(r"^<.* as Iterator>::(any|all|position)$")
def m_iter_any(ex, st, c):
    it = D(ex, st, c.args[0]); clo = c.args[1]
    kind = strip_generics(c.callee).rsplit('::', 1)[1]
    if kind in ('any', 'all') and isinstance(it, Opaque) and it.tag == 'Split' and it.data[0] is not None:
        s_, p_ = it.data
        pc_ = p_.concrete()
        if pc_ is not None and len(pc_) == 1 and s_.concrete() is None and s_.cap <= 24:
            return split_any_all(ex, st, s_, pc_[0], clo, kind)

    def step(it, n):
        if n > ex.max_block_visits: return StopR('bound:unroll', 'Iterator::%s' % kind)
        alts = []
        for cond, item, nit in pure_next(ex, st, it):
            if item is None:
                alts.append((cond, {'any': False, 'all': True, 'position': NONE}[kind]))
            else:
                def mk(item=item, nit=nit):
                    def cont(ex_, st_, r):
                        r = simp_bool(r) if not isinstance(r, bool) else r
                        hit = {'any': True, 'all': False, 'position': Some(usize(n))}[kind]
                        stop_on = (kind != 'all')
                        if isinstance(r, bool):
                            return hit if r == stop_on else LazyR(lambda: step(nit, n + 1))
                        yes = r if stop_on else b_not(r)
                        return Fork([(yes, hit), (b_not(yes), LazyR(lambda: step(nit, n + 1)))])
                    return LazyR(lambda: CallFn(clo, [Tup((item,))] if False else [item], cont))
                alts.append((cond, mk()))
        if len(alts) == 1 and alts[0][0] is True: return alts[0][1]
        return Fork(alts)
    return step(it, 0)


def _lazy(fn, *args):
    return LazyR(lambda: fn(*args))


@model(r"^<(std::str::)?(Split|SplitN|Windows|Bytes)<'_.*> as Iterator>::(nth|last|count)$", r"^<(std::slice::|std::vec::)?(Iter|IntoIter)<.*> as Iterator>::(nth)$")
def m_iter_nth(ex, st, c):
    """nth(k) / last() / count() of a lazily evaluated iterator: k (concrete) steps of pure_next, forking on exhaustion"""
    it = D(ex, st, c.args[0])
    kind = strip_generics(c.callee).rsplit('::', 1)[1]
    if kind == 'nth':
        k = D(ex, st, c.args[1])
        if not k.conc: raise Unsupported('Iterator::nth with a symbolic index')
        def step(it, i):
            alts = []
            for cond, item, nit in pure_next(ex, st, it):
                if item is None: alts.append((cond, _WithStore(NONE, (c.args[0], nit))))
                elif i == k.v: alts.append((cond, _WithStore(Some(item), (c.args[0], nit))))
                else: alts.append((cond, _lazy(step, nit, i + 1)))
            if len(alts) == 1 and alts[0][0] is True: return alts[0][1]
            return Fork(alts)
        return step(it, 0)

    def walk(it, i, last):
        if i > ex.max_block_visits: return StopR('bound:unroll', 'Iterator::%s' % kind)
        alts = []
        for cond, item, nit in pure_next(ex, st, it):
            if item is None: alts.append((cond, usize(i) if kind == 'count' else (NONE if last is None else Some(last))))
            else: alts.append((cond, _lazy(walk, nit, i + 1, item)))
        if len(alts) == 1 and alts[0][0] is True: return alts[0][1]
        return Fork(alts)
    return walk(it, 0, None)


@model(r"^<std::str::Split<'_, .*> as Iterator>::next$")
def m_split_next(ex, st, c):
    it = D(ex, st, c.args[0])
    alts = []
    for cond, item, nit in pure_next(ex, st, it):
        alts.append((cond, NONE if item is None else Some(item), (c.args[0], nit)))
    return ForkStore(alts)


@model(r'^core::str::<impl str>::matches$')
def m_matches(ex, st, c):
    return Opaque('Matches', (D(ex, st, c.args[0]), as_str(ex, st, c.args[1])))


@model(r"^<Matches<'_, .*> as Iterator>::count$")
def m_matches_count(ex, st, c):
    s, p = D(ex, st, c.args[0]).data
    pf = p.flat()
    if not pf.conc_len or pf.ln == 0: raise Unsupported('matches with symbolic pattern')
    # non-overlapping count, left to right
    f = s.flat(); n = f.cap
    # dynamic programming over positions: count[i], skip[i] (bytes still covered by a previous match)
    cnt = 0; cover = [False] * (n + pf.ln + 1)
    total = 0
    covered_prev = [False] * (n + 1)
    # cov[i] : position i is inside a match started earlier
    cov = False; remaining = 0
    count = 0
    # represent "remaining" as python int when concrete else z3 bv8
    rem = 0
    for i in range(0, n - pf.ln + 1):
        m = s.match_at(i, pf.bs and bytes(pf.bs) if all(isinstance(b, int) for b in pf.bs) else p)
        free = bv_eq(rem, 0, 8)
        start = b_and(free, m)
        count = ite_bv(start, bv_add(count, 1, LW), count, LW) if start is not False else count
        dec = rem if isinstance(rem, int) and rem == 0 else ite_bv(free, 0, bv_sub(rem, 1, 8), 8)
        rem = ite_bv(start, pf.ln - 1, dec, 8) if start is not False else dec
    return usize(count)


@model(r'^str::<impl str>::replace$', r'^str::<impl str>::replacen$', r'^alloc::str::<impl str>::replace$')
def m_replace(ex, st, c):
    s = D(ex, st, c.args[0]); to = as_str(ex, st, c.args[2])
    if isinstance(c.args[1], Closure):
        return replace_by_pred(ex, st, s, c.args[1], to)
    frm = as_str(ex, st, c.args[1])
    limit = None
    if c.callee.split('::<')[0].endswith('replacen') or 'replacen' in c.callee:
        n = D(ex, st, c.args[3])
        if not n.conc: raise Unsupported('replacen symbolic count')
        limit = n.v
    return replace_str(s, frm, to, limit, hard_cap=ex.str_cap)


def compact(f, keeps):
    """subsequence of atom f's bytes selected by keeps[i] (bool / z3 Bool), as one atom"""
    n = len(keeps)
    if all(isinstance(k, bool) for k in keeps):
        bs = [f.bs[i] for i in range(n) if keeps[i]]
        return SymStr((Atom(len(bs), tuple(bs)),))
    rank = []; r = 0
    for k in keeps:
        rank.append(r)
        r = r if k is False else ite_bv(k, bv_add(r, 1, 8), r, 8)
    total = r
    out = []
    for j in range(n):
        b = 0
        for i in range(n - 1, j - 1, -1):
            if keeps[i] is False: continue
            sel = b_and(keeps[i], bv_eq(rank[i], j, 8))
            if sel is False: continue
            b = ite_bv(sel, f.bs[i], b, 8)
        out.append(b)
    ln = total if isinstance(total, int) else z3.ZeroExt(LW - 8, total)
    return SymStr((Atom(ln, tuple(out)),))


def replace_by_pred(ex, st, s, clo, to):
    """str::replace(|c| pred(c), to): the closure is run (from its MIR) once per byte; it must not fork"""
    f = s.flat(); n = f.cap
    if n == 0: return s
    tf = to.flat()
    if tf.conc_len and tf.ln == 0 and n < 250:
        # deletion: compact the kept bytes with 8-bit rank arithmetic (one atom, no rope of 0/1-length pieces)
        def dstep(i, keeps):
            if i == n: return compact(f, keeps)

            def cont(ex_, st_, r, i=i, keeps=keeps):
                k = simp_bool(b_and(bv_ult(i, f.ln, LW), b_not(r)))
                return LazyR(lambda: dstep(i + 1, keeps + [k]))
            return CallFn(clo, [char_of(f.bs[i])], cont)
        return dstep(0, [])

    def step(i, segs):
        if i == n: return SymStr(segs)

        def cont(ex_, st_, r, i=i, segs=segs):
            inr = bv_ult(i, f.ln, LW)
            hit = b_and(inr, r); keep = b_and(inr, b_not(r))
            hit = simp_bool(hit); keep = simp_bool(keep)
            if hit is True: seg = list(to.segs)
            elif hit is False:
                if keep is True: seg = [Atom(1, (f.bs[i],))]
                elif keep is False: seg = []
                else: seg = [Atom(ite_bv(keep, 1, 0, LW), (ite_bv(keep, f.bs[i], 0, 8),))]
            else:
                capn = max(tf.cap, 1)
                ln = ite_bv(hit, tf.ln, ite_bv(keep, 1, 0, LW), LW)
                bs = []
                for k in range(capn):
                    tb = tf.bs[k] if k < tf.cap else 0
                    kb = ite_bv(keep, f.bs[i], 0, 8) if k == 0 else 0
                    bs.append(ite_bv(hit, tb, kb, 8))
                seg = [Atom(ln, tuple(bs))]
            return LazyR(lambda: step(i + 1, segs + seg))
        return CallFn(clo, [char_of(f.bs[i])], cont)
    return step(0, [])


def replace_str(s, frm, to, limit=None, hard_cap=None):
    ff = frm.flat()
    if not ff.conc_len: raise Unsupported('replace with symbolic-length pattern')
    pl = ff.ln
    if pl == 0: raise Unsupported('replace of empty pattern')
    c = s.concrete(); fc = frm.concrete()
    if c is not None and fc is not None:
        parts = c.split(fc) if limit is None else c.split(fc, limit)
        return SymStr.join([SymStr.const(x) for x in parts], to)
    tc = to.concrete()
    if fc is not None and tc is not None and fc == tc: return s
    f = s.flat()
    if to.flat().conc_len and to.flat().ln == pl:
        # same-length replacement: positions are preserved; byte i is rewritten when a (non-overlapping, leftmost) match covers it
        n = f.cap; tb = to.flat().bs
        out = list(f.bs); rem = 0; count = 0
        starts = []
        for i in range(n):
            m = s.match_at(i, frm)
            free = bv_eq(rem, 0, 8)
            start = b_and(free, m)
            if limit is not None:
                start = b_and(start, bv_ult(count, limit, LW))
                count = count if start is False else ite_bv(start, bv_add(count, 1, LW), count, LW)
            starts.append(start)
            dec = 0 if (isinstance(rem, int) and rem == 0) else ite_bv(free, 0, bv_sub(rem, 1, 8), 8)
            rem = dec if start is False else ite_bv(start, pl - 1, dec, 8)
        for i in range(n):
            b = f.bs[i]
            for k in range(pl):
                if i - k < 0: break
                st_ = starts[i - k]
                if st_ is False: continue
                b = ite_bv(st_, tb[k], b, 8)
            out[i] = b
        return SymStr((Atom(f.ln, tuple(out), f.minlen),))
    # general case: leftmost non-overlapping scan, then compaction of the emitted bytes with 8-bit offsets (one atom)
    n = f.cap; tf = to.flat()
    if not tf.conc_len: raise Unsupported('replace with symbolic-length replacement')
    tl = tf.ln
    cap_out = n if tl <= pl else (n // pl) * tl + (n % pl)
    capped = False
    if hard_cap is not None and cap_out > hard_cap:
        cap_out = hard_cap; capped = True      # the caller gets a fork: (length exceeds the cap -> terminal 'bound:strcap') / result
    if cap_out > 250: raise Unsupported('replace output too long for the 8-bit offset circuit')
    rem = 0; count = 0
    emits = []      # per input position: (start, keep)
    for i in range(n):
        inr = bv_ult(i, f.ln, LW)
        mt = s.match_at(i, frm)
        free = bv_eq(rem, 0, 8)
        start = b_and(free, mt)
        if limit is not None:
            start = b_and(start, bv_ult(count, limit, LW))
            count = count if start is False else ite_bv(start, bv_add(count, 1, LW), count, LW)
        keep = b_and(free, b_not(start), inr)
        emits.append((simp_bool(start) if not isinstance(start, bool) else start, simp_bool(keep) if not isinstance(keep, bool) else keep))
        dec = 0 if (isinstance(rem, int) and rem == 0) else ite_bv(free, 0, bv_sub(rem, 1, 8), 8)
        rem = dec if start is False else ite_bv(start, pl - 1, dec, 8)
    if all(st_ is False for st_, _ in emits): return s
    offs = []; o = 0
    for st_, kp in emits:
        offs.append(o)
        inc = ite_bv(st_, tl, ite_bv(kp, 1, 0, 8), 8)
        o = bv_add(o, inc, 8)
    total = o
    if isinstance(total, int):
        cap_out = total; capped = False       # the result length is known: the bound on symbolic-length results does not apply
    out = []
    for j in range(cap_out):
        b = 0
        for i in range(n - 1, -1, -1):
            st_, kp = emits[i]
            if kp is not False:
                sel = b_and(kp, bv_eq(offs[i], j, 8))
                if sel is not False: b = ite_bv(sel, f.bs[i], b, 8)
            if st_ is not False:
                for k in range(tl):
                    if j - k < 0: continue
                    sel = b_and(st_, bv_eq(offs[i], j - k, 8))
                    if sel is not False: b = ite_bv(sel, tf.bs[k], b, 8)
        out.append(b)
    ln = total if isinstance(total, int) else z3.ZeroExt(LW - 8, total)
    result = SymStr((Atom(ln, tuple(out)),))
    if capped:
        # offsets are 8-bit: keep them exact by also bounding the number of expansions (n + matches*(tl-pl) <= 255 is implied by hard_cap <= 250)
        nm = 0
        for st_, _ in emits: nm = bv_add(nm, ite_bv(st_, 1, 0, 8), 8)
        # true length as a 16-bit quantity (cannot wrap): kept bytes + matches * tl
        kept = 0
        for _, kp in emits: kept = bv_add(kept, ite_bv(kp, 1, 0, 16), 16)
        nm16 = 0
        for st_, _ in emits: nm16 = bv_add(nm16, ite_bv(st_, tl, 0, 16), 16)
        true_len = bv_add(kept, nm16, 16)
        over = bv_ult(hard_cap, true_len, 16)
        return _CapOblig(over, result, hard_cap)
    return result


def is_ws(b):
    if isinstance(b, int): return b in (9, 10, 11, 12, 13, 32)
    return z3.Or(z3.And(z3.UGE(b, 9), z3.ULE(b, 13)), b == 32)


def trim_by(s, pred, do_l, do_r):
    """strip the leading / trailing bytes for which pred(byte) holds (pred: int|BitVec -> bool|BoolRef)"""
    f = s.flat(); n = f.cap
    start = 0
    if do_l:
        allp = True; start = 0
        for i in range(n):
            inr = bv_ult(i, f.ln, LW)
            allp = b_and(allp, inr, pred(f.bs[i]))
            if allp is False: break
            start = bv_add(start, ite_bv(allp, 1, 0, LW), LW)
    end = f.ln
    if do_r:
        end = 0
        for i in range(n):
            inr = bv_ult(i, f.ln, LW)
            keep = b_and(inr, b_not(pred(f.bs[i])))
            end = ite_bv(keep, i + 1, end, LW) if keep is not False else end
        # if every byte is stripped, end = 0 <= start: result empty
    ln = ite_bv(bv_ult(start, end, LW), bv_sub(end, start, LW), 0, LW)
    start2 = ite_bv(bv_ult(start, end, LW), start, 0, LW)
    K = FORK_SMALL[0]
    if K and not (isinstance(start2, int) and isinstance(ln, int)):
        # opt-in (ex.fork_read_until): when only a few (start, length) pairs are possible, fork on them so that the successors
        # work with concrete offsets
        (ls, hs), (ll, hl) = bounds(start2), bounds(ln)
        if hs - ls <= K and hl - ll <= K:
            alts = []
            for a in range(ls, hs + 1):
                for b in range(ll, hl + 1):
                    cnd = b_and(bv_eq(start2, a, LW), bv_eq(ln, b, LW))
                    cnd = simp_bool(cnd) if not isinstance(cnd, bool) else cnd
                    if cnd is False: continue
                    alts.append((cnd, s.substr(a, b)))
            if len(alts) == 1: return alts[0][1]
            return Fork(alts)
    return s.substr(start2, ln)


FORK_SMALL = [0]      # set by m_trim / m_trim_matches from ex.fork_read_until for the duration of the call


@model(r'^core::str::<impl str>::trim$', r'^core::str::<impl str>::trim_start$', r'^core::str::<impl str>::trim_end$')
def m_trim(ex, st, c):
    s = D(ex, st, c.args[0])
    do_l = not c.callee.endswith('trim_end'); do_r = not c.callee.endswith('trim_start')
    cc = s.concrete()
    if cc is not None:
        ws = b'\t\n\x0b\x0c\r '
        r = cc
        if do_l: r = r.lstrip(ws)
        if do_r: r = r.rstrip(ws)
        return SymStr.const(r)
    FORK_SMALL[0] = getattr(ex, 'fork_read_until', 0)
    try: return trim_by(s, is_ws, do_l, do_r)
    finally: FORK_SMALL[0] = 0


def byte_pattern(ex, st, v):
    """str::pattern::Pattern argument -> ('set', [byte values]) | ('str', SymStr) | ('closure', value)"""
    v = ex.deref(st, v)
    if isinstance(v, (Closure, FnItem)): return ('closure', v)
    if isinstance(v, Int) and v.ty == 'char':
        if v.conc and v.v < 128: return ('set', [v.v])
        if not v.conc: return ('set', [z3.Extract(7, 0, v.v)])
        raise Unsupported('non-ASCII char pattern')
    if isinstance(v, (Vec, Tup)) or (isinstance(v, Struct) and False):
        items = v.items
        out = []
        for it in items:
            it = ex.deref(st, it)
            if not (isinstance(it, Int) and it.ty == 'char' and it.conc and it.v < 128): raise Unsupported('char-set pattern element %r' % (it,))
            out.append(it.v)
        return ('set', out)
    p = as_str(ex, st, v)
    pc = p.concrete()
    if pc is not None and len(pc) == 1: return ('set', [pc[0]])
    return ('str', p)


def in_set(bytes_):
    def pred(b): return b_or(*[bv_eq(b, x, 8) for x in bytes_])
    return pred


def closure_on_bytes(ex, clo, f, idxs, done):
    """apply a char predicate closure to the bytes f.bs[i] (i in idxs, ASCII assumed) one after the other; done(list of bools).
    The closure may fork: the results are threaded through the continuations, never shared between paths."""
    def go(k, acc):
        if k == len(idxs): return done(list(acc))
        b = f.bs[idxs[k]]
        ch = Int('char', b if isinstance(b, int) else z3.ZeroExt(24, b))

        def cont(ex_, st_, r):
            return LazyR(lambda: go(k + 1, acc + (r,)))
        return CallFn(clo, [ch], cont)
    return go(0, ())


def _trim_closure_walk(ex, s, f, clo, do_l, do_r):
    n = f.ln

    def finish(lo, hi): return s.substr(lo, hi - lo) if hi > lo else SymStr(())

    def right(lo, hi):
        if not do_r or hi <= lo: return finish(lo, hi)

        def cont(ex_, st_, r):
            r = simp_bool(r) if not isinstance(r, bool) else r
            if r is True: return LazyR(lambda: right(lo, hi - 1))
            if r is False: return finish(lo, hi)
            return Fork([(r, LazyR(lambda: right(lo, hi - 1))), (b_not(r), LazyR(lambda: finish(lo, hi)))])
        return CallFn(clo, [char_of(f.bs[hi - 1])], cont)

    def left(lo):
        if not do_l or lo >= n: return right(lo, n)

        def cont(ex_, st_, r):
            r = simp_bool(r) if not isinstance(r, bool) else r
            if r is True: return LazyR(lambda: left(lo + 1))
            if r is False: return LazyR(lambda: right(lo, n))
            return Fork([(r, LazyR(lambda: left(lo + 1))), (b_not(r), LazyR(lambda: right(lo, n)))])
        return CallFn(clo, [char_of(f.bs[lo])], cont)
    return left(0)


@model(r'^core::str::<impl str>::(trim_matches|trim_start_matches|trim_end_matches|trim_left_matches|trim_right_matches)$')
def m_trim_matches(ex, st, c):
    s = D(ex, st, c.args[0])
    name = strip_generics(c.callee).rsplit('::', 1)[1]
    do_l = name in ('trim_matches', 'trim_start_matches', 'trim_left_matches'); do_r = name in ('trim_matches', 'trim_end_matches', 'trim_right_matches')
    kind, p = byte_pattern(ex, st, c.args[1])
    if kind == 'set': return trim_by(s, in_set(p), do_l, do_r)
    if kind == 'closure':
        f = s.flat()
        if f.conc_len:
            # concrete length: walk inwards from the ends, one closure call per examined character, stopping at the first character
            # the predicate rejects (the closure may fork on a symbolic character; each path continues on its own)
            return _trim_closure_walk(ex, s, f, p, do_l, do_r)
        if f.cap > 16: raise Unsupported('closure pattern over a long string of symbolic length')
        def done(bits):
            table = list(bits)
            g = s.flat(); n = g.cap
            start = 0
            if do_l:
                allp = True
                for i in range(n):
                    allp = b_and(allp, bv_ult(i, g.ln, LW), table[i])
                    if allp is False: break
                    start = bv_add(start, ite_bv(allp, 1, 0, LW), LW)
            end = g.ln
            if do_r:
                end = 0
                for i in range(n):
                    keep = b_and(bv_ult(i, g.ln, LW), b_not(table[i]))
                    end = ite_bv(keep, i + 1, end, LW) if keep is not False else end
            ln = ite_bv(bv_ult(start, end, LW), bv_sub(end, start, LW), 0, LW)
            return s.substr(ite_bv(bv_ult(start, end, LW), start, 0, LW), ln)
        return closure_on_bytes(ex, p, f, list(range(f.cap)), done)
    # multi-byte string pattern: strip repeatedly (bounded by cap // len)
    pc = p.concrete()
    if pc is None or len(pc) == 0: raise Unsupported('trim_*_matches with a symbolic or empty string pattern')
    cur = s
    for _ in range(s.flat().cap // len(pc)):
        if do_l:
            hit = match_at_general(cur, 0, p)
            if hit is not False: cur = cur.substr(ite_bv(hit, len(pc), 0, LW), bv_sub(cur.length(), ite_bv(hit, len(pc), 0, LW), LW))
        if do_r:
            hit = cur.ends_with(p)
            if hit is not False: cur = cur.substr(0, bv_sub(cur.length(), ite_bv(hit, len(pc), 0, LW), LW))
    return cur


def lower(b):
    if isinstance(b, int): return b + 32 if 65 <= b <= 90 else b
    return z3.If(z3.And(z3.UGE(b, 65), z3.ULE(b, 90)), b + 32, b)


def upper(b):
    if isinstance(b, int): return b - 32 if 97 <= b <= 122 else b
    return z3.If(z3.And(z3.UGE(b, 97), z3.ULE(b, 122)), b - 32, b)


@model(r'^str::<impl str>::to_lowercase$', r'^core::str::<impl str>::to_ascii_lowercase$', r'^alloc::str::<impl str>::to_lowercase$')
def m_lower(ex, st, c): return D(ex, st, c.args[0]).map_bytes(lower)


@model(r'^str::<impl str>::to_uppercase$', r'^core::str::<impl str>::to_ascii_uppercase$', r'^alloc::str::<impl str>::to_uppercase$')
def m_upper(ex, st, c): return D(ex, st, c.args[0]).map_bytes(upper)


@model(r'^core::str::<impl str>::eq_ignore_ascii_case$')
def m_eq_ic(ex, st, c): return D(ex, st, c.args[0]).map_bytes(lower).eq(D(ex, st, c.args[1]).map_bytes(lower))


# ------------------------------------------------------------------ joins
@model(r'^slice::<impl \[(String|&str)\]>::join$', r'^slice::<impl \[(String|&str)\]>::concat$', r'^slice::<impl \[(Vec<u8>|&\[u8\])\]>::join$',
       r'^slice::<impl \[Vec<u8>\]>::concat$', r'^slice::<impl \[&\[u8\]\]>::concat$', r'^slice::<impl \[.*\]>::concat$')
def m_join(ex, st, c):
    v = D(ex, st, c.args[0])
    sep = as_str(ex, st, c.args[1]) if len(c.args) > 1 else None
    return SymStr.join([D(ex, st, x) for x in v.items], sep)


# ------------------------------------------------------------------ utf-8
def utf8_classes(f):
    """returns (all_ascii, valid) formulas for atom f"""
    allascii = True
    for i, b in enumerate(f.bs):
        allascii = b_and(allascii, b_or(bv_ule(f.ln, i, LW), bv_ult(b, 0x80, 8)))
    return allascii


def utf8_valid(f):
    """exact UTF-8 validity circuit (RFC 3629 incl. overlong / surrogate / >U+10FFFF exclusions) over atom f"""
    n = f.cap
    # need[i]: state before byte i: 0 = boundary, else number of continuation bytes still expected, with
    # lo/hi bounds for the next continuation byte.  Encode as small python-level unrolled automaton with z3 ites.
    st_need = 0; lo = 0x80; hi = 0xBF; ok = True
    for i in range(n):
        b = f.bs[i]
        inr = bv_ult(i, f.ln, LW)
        if isinstance(b, int) and isinstance(st_need, int) and isinstance(inr, bool):
            if not inr: continue
            if st_need == 0:
                if b < 0x80: pass
                elif 0xC2 <= b <= 0xDF: st_need, lo, hi = 1, 0x80, 0xBF
                elif b == 0xE0: st_need, lo, hi = 2, 0xA0, 0xBF
                elif 0xE1 <= b <= 0xEC or 0xEE <= b <= 0xEF: st_need, lo, hi = 2, 0x80, 0xBF
                elif b == 0xED: st_need, lo, hi = 2, 0x80, 0x9F
                elif b == 0xF0: st_need, lo, hi = 3, 0x90, 0xBF
                elif 0xF1 <= b <= 0xF3: st_need, lo, hi = 3, 0x80, 0xBF
                elif b == 0xF4: st_need, lo, hi = 3, 0x80, 0x8F
                else: return False
            else:
                if not (lo <= b <= hi): return False
                st_need -= 1; lo, hi = 0x80, 0xBF
            continue
        bz = _bz(b)
        need_z = bvval(st_need, 8) if isinstance(st_need, int) else st_need
        lo_z = bvval(lo, 8) if isinstance(lo, int) else lo
        hi_z = bvval(hi, 8) if isinstance(hi, int) else hi
        at_boundary = need_z == 0
        lead_ok = z3.Or(z3.ULT(bz, 0x80), z3.And(z3.UGE(bz, 0xC2), z3.ULE(bz, 0xF4)))
        cont_ok = z3.And(z3.UGE(bz, lo_z), z3.ULE(bz, hi_z))
        step_ok = z3.If(at_boundary, lead_ok, cont_ok)
        new_need = z3.If(at_boundary,
                         z3.If(z3.ULT(bz, 0x80), bvval(0, 8), z3.If(z3.ULE(bz, 0xDF), bvval(1, 8), z3.If(z3.ULE(bz, 0xEF), bvval(2, 8), bvval(3, 8)))),
                         need_z - 1)
        new_lo = z3.If(at_boundary, z3.If(bz == 0xE0, bvval(0xA0, 8), z3.If(bz == 0xF0, bvval(0x90, 8), bvval(0x80, 8))), bvval(0x80, 8))
        new_hi = z3.If(at_boundary, z3.If(bz == 0xED, bvval(0x9F, 8), z3.If(bz == 0xF4, bvval(0x8F, 8), bvval(0xBF, 8))), bvval(0xBF, 8))
        ok = b_and(ok, b_or(b_not(inr), step_ok))
        st_need = z3.If(zb(inr), new_need, need_z); lo = z3.If(zb(inr), new_lo, lo_z); hi = z3.If(zb(inr), new_hi, hi_z)
    end_ok = (st_need == 0) if isinstance(st_need, int) else (st_need == 0)
    return b_and(ok, end_ok)


def _bz(b): return bvval(b, 8) if isinstance(b, int) else b


@model(r'^String::from_utf8$', r'^core::str::from_utf8$', r'^std::str::from_utf8$')
def m_from_utf8(ex, st, c):
    s = D(ex, st, c.args[0])
    cc = s.concrete()
    if cc is not None:
        try:
            cc.decode('utf-8')
            if all(x < 0x80 for x in cc): return Ok(s)
            if ex.allow_non_ascii: return Ok(s)
            return StopR('domain:non-ascii', 'from_utf8 accepted non-ASCII text')
        except UnicodeDecodeError:
            return Err(Opaque('FromUtf8Error'))
    f = s.flat()
    ascii_ = utf8_classes(f)
    if ascii_ is True: return Ok(s)
    valid = utf8_valid(f)
    if ex.allow_non_ascii:
        return Fork([(b_or(ascii_, valid), Ok(s)), (b_and(b_not(ascii_), b_not(valid)), Err(Opaque('FromUtf8Error')))])
    return Fork([(ascii_, Ok(s)),
                 (b_and(b_not(ascii_), b_not(valid)), Err(Opaque('FromUtf8Error'))),
                 (b_and(b_not(ascii_), valid), StopR('domain:non-ascii', 'from_utf8 accepted non-ASCII text'))])


@model(r'^String::from_utf8_lossy$')
def m_from_utf8_lossy(ex, st, c):
    s = D(ex, st, c.args[0])
    cc = s.concrete()
    if cc is not None:
        return SymStr.const(cc.decode('utf-8', 'replace').encode('utf-8'))
    f = s.flat()
    ascii_ = utf8_classes(f)
    if ascii_ is True: return s
    valid = utf8_valid(f)
    # invalid input: every maximal invalid sequence becomes U+FFFD, so the result is some string different from the input
    def lossy(st_):
        cons = []
        r = SymStr.fresh(ex.fresh('lossy'), f.cap * 3, cons)
        cons.append(z3.Not(zb(r.eq(s))))
        st_.pc.extend(cons)
        return r
    if getattr(ex, 'lossy_mode', 'approx') == 'stop':
        # checks whose claim is limited to ASCII / valid UTF-8 text cut the replacement branch as outside their domain
        return Fork([(b_or(ascii_, valid), s), (b_and(b_not(ascii_), b_not(valid)), StopR('domain:invalid-utf8-lossy', 'from_utf8_lossy replaces bytes'))])
    return Fork([(b_or(ascii_, valid), s), (b_and(b_not(ascii_), b_not(valid)), LazyR(lossy))])


@model(r'^<(FromUtf8Error|Utf8Error|ParseIntError|ParseBoolError|ParseFloatError|std::io::Error|VarError|std::fmt::Error|AddrParseError|SystemTimeError|std::sync::mpsc::RecvError) as ToString>::to_string$')
def m_err_to_string(ex, st, c):
    return opaque_msg(ex, st, c.callee[1:c.callee.index(' as ')].split('::')[-1])


# ------------------------------------------------------------------ Option / Result
def _enum(ex, st, v):
    v = D(ex, st, v)
    if not isinstance(v, Enum): raise Unsupported('expected Option/Result, got %r' % (v,))
    return v


@model(r'^(Option|Result)::<.*>::(is_some|is_ok)$', r'^(Option|Result)::(is_some|is_ok)$')
def m_is_some(ex, st, c): return _enum(ex, st, c.args[0]).variant in ('Some', 'Ok')


@model(r'^(Option|Result)::<.*>::(is_none|is_err)$', r'^(Option|Result)::(is_none|is_err)$')
def m_is_none(ex, st, c): return _enum(ex, st, c.args[0]).variant in ('None', 'Err')


@model(r'^(Option|Result)::<.*>::(unwrap|expect)$', r'^(Option|Result)::(unwrap|expect)$')
def m_unwrap(ex, st, c):
    v = _enum(ex, st, c.args[0])
    if v.variant in ('Some', 'Ok'): return v.fields[0]
    return Panic('called `%s::%s()` on %s' % (v.ty, c.callee.rsplit('::', 1)[1], 'a `None` value' if v.variant == 'None' else 'an `Err` value'))


@model(r'^Result::<.*>::(unwrap_err|expect_err)$', r'^Result::unwrap_err$')
def m_unwrap_err(ex, st, c):
    v = _enum(ex, st, c.args[0])
    if v.variant == 'Err': return v.fields[0]
    return Panic('called `Result::unwrap_err()` on an `Ok` value')


@model(r'^Result::<.*>::err$', r'^Result::err$')
def m_err(ex, st, c):
    v = _enum(ex, st, c.args[0]); return Some(v.fields[0]) if v.variant == 'Err' else NONE


@model(r'^Result::<.*>::ok$', r'^Result::ok$')
def m_ok(ex, st, c):
    v = _enum(ex, st, c.args[0]); return Some(v.fields[0]) if v.variant == 'Ok' else NONE


@model(r'^(Option|Result)::<.*>::as_ref$', r'^(Option|Result)::as_ref$', r'^Option::<.*>::copied$', r'^Option::copied$',
       r'^Option::<.*>::cloned$', r'^Option::cloned$', r'^Option::<.*>::as_deref$')
def m_as_ref(ex, st, c): return _enum(ex, st, c.args[0])


def _gen_args(callee):
    """text inside the first ::<...> of a callee path, split at top-level commas"""
    i = callee.find('::<')
    if i < 0: return []
    depth = 0; out = []; cur = ''
    for ch in callee[i + 3:]:
        if ch in '<([': depth += 1
        elif ch in '>)]':
            if depth == 0: break
            depth -= 1
        if ch == ',' and depth == 0: out.append(cur.strip()); cur = ''
        else: cur += ch
    out.append(cur.strip())
    return out


def default_of(ty):
    ty = ty.strip()
    if ty in WIDTH: return Int(ty, 0)
    if ty == 'bool': return False
    if ty in ('String', '&str', 'std::string::String', 'Vec<u8>'): return SymStr.const(b'')
    if ty.startswith('Vec<'): return Vec([])
    if ty.startswith('Option<'): return NONE
    if ty == '()': return UNIT
    if ty == 'char': return Int('char', 0)
    raise Unsupported('Default for %s' % ty)


def _callk(clo, args, k):
    return CallFn(clo, list(args), lambda ex_, st_, r: k(r))


@model(r'^(Option|Result)(::<.*>)?::(map|map_err|and_then|or_else|unwrap_or_else|unwrap_or_default|ok_or|ok_or_else|filter|is_some_and|is_none_or|is_ok_and|is_err_and|map_or|map_or_else|or|and|xor|flatten|inspect|inspect_err)$',
       r'^(Option|Result)::(or|and|xor|flatten|unwrap_or_default)$')
def m_opt_res_combinators(ex, st, c):
    v = _enum(ex, st, c.args[0])
    base = strip_generics(c.callee)
    op = base.rsplit('::', 1)[1]
    is_opt = v.variant in ('Some', 'None')
    good = v.variant in ('Some', 'Ok')
    a = c.args
    ident = lambda r: r
    if op == 'map':
        if good: return _callk(a[1], [v.fields[0]], (lambda r: Some(r)) if is_opt else (lambda r: Ok(r)))
        return v
    if op == 'map_err':
        if v.variant == 'Err': return _callk(a[1], [v.fields[0]], lambda r: Err(r))
        return v
    if op == 'and_then':
        return _callk(a[1], [v.fields[0]], ident) if good else v
    if op == 'or_else':
        if good: return v
        return _callk(a[1], [] if is_opt else [v.fields[0]], ident)
    if op == 'unwrap_or_else':
        if good: return v.fields[0]
        return _callk(a[1], [] if is_opt else [v.fields[0]], ident)
    if op == 'unwrap_or_default':
        if good: return v.fields[0]
        g = _gen_args(c.callee)
        if not g: raise Unsupported('unwrap_or_default without a type')
        return default_of(g[0])
    if op == 'ok_or': return Ok(v.fields[0]) if good else Err(a[1])
    if op == 'ok_or_else': return Ok(v.fields[0]) if good else _callk(a[1], [], lambda r: Err(r))
    if op == 'filter':
        if not good: return NONE
        def k(r):
            if isinstance(r, bool): return v if r else NONE
            return Fork([(r, v), (b_not(r), NONE)])
        return _callk(a[1], [v.fields[0]], k)
    if op in ('is_some_and', 'is_ok_and'): return _callk(a[1], [v.fields[0]], ident) if good else False
    if op == 'is_err_and': return _callk(a[1], [v.fields[0]], ident) if v.variant == 'Err' else False
    if op == 'is_none_or': return _callk(a[1], [v.fields[0]], ident) if good else True
    if op == 'map_or': return _callk(a[2], [v.fields[0]], ident) if good else a[1]
    if op == 'map_or_else':
        if good: return _callk(a[2], [v.fields[0]], ident)
        return _callk(a[1], [] if is_opt else [v.fields[0]], ident)
    if op == 'or': return v if good else D(ex, st, a[1])
    if op == 'and': return D(ex, st, a[1]) if good else v
    if op == 'xor':
        w = _enum(ex, st, a[1]); g2 = w.variant == 'Some'
        return v if (good and not g2) else w if (g2 and not good) else NONE
    if op == 'flatten': return v.fields[0] if good else v
    if op in ('inspect', 'inspect_err'): return v
    raise Unsupported(op)


@model(r'^Option::<.*>::unwrap_or$', r'^Result::<.*>::unwrap_or$', r'^Option::unwrap_or$')
def m_unwrap_or(ex, st, c):
    v = _enum(ex, st, c.args[0]); return v.fields[0] if v.variant in ('Some', 'Ok') else c.args[1]


@model(r'^Option::and_then$')
def m_and_then(ex, st, c):
    v = _enum(ex, st, c.args[0])
    if v.variant == 'None': return NONE
    is_map = c.callee.split('::<')[0].endswith('map') or c.callee.endswith('::map')
    return CallFn(c.args[1], [v.fields[0]], (lambda ex_, st_, r: Some(r)) if is_map else (lambda ex_, st_, r: r))


@model(r'^<Option<.*> as From<.*>>::from$')
def m_option_from(ex, st, c): return Some(c.args[0])


@model(r'^<Option<.*> as PartialEq>::eq$')
def m_opt_eq(ex, st, c): return values_eq(ex, st, c.args[0], c.args[1])


# ------------------------------------------------------------------ parsing numbers
def parse_int(s, ty, radix=10):
    """exact model of <intN as FromStr>::from_str on an ASCII string: returns (ok_cond, value Int).  Err otherwise."""
    w = WIDTH[ty]; sg = ty in SIGNED
    cc = s.concrete()
    if cc is not None and radix != 10:
        try:
            t = cc.decode('ascii')
            if not re.match(r'^[+-]?[0-9a-fA-F]+$' if radix == 16 else r'^[+-]?[0-7]+$', t): return False, None
            if t[0] == '-' and not sg: return False, None
            v = int(t, radix)
            lo, hi = (-(1 << (w - 1)), (1 << (w - 1)) - 1) if sg else (0, (1 << w) - 1)
            if not (lo <= v <= hi): return False, None
            return True, Int(ty, v)
        except UnicodeDecodeError:
            return False, None
    if cc is not None:
        try:
            t = cc.decode('ascii')
            if not re.match(r'^[+-]?[0-9]+$', t) or (t[0] == '-' and not sg and not re.match(r'^-0*$', t[1:]) is None and False):
                return False, None
            if t[0] == '-' and not sg: return False, None
            v = int(t)
            lo, hi = (-(1 << (w - 1)), (1 << (w - 1)) - 1) if sg else (0, (1 << w) - 1)
            if not (lo <= v <= hi): return False, None
            return True, Int(ty, v)
        except UnicodeDecodeError:
            return False, None
    f = s.flat(); n = f.cap
    if n == 0: return False, None
    # sign
    b0 = f.bs[0]
    has_plus = b_and(bv_ult(0, f.ln, LW), bv_eq(b0, 43, 8))
    has_minus = b_and(bv_ult(0, f.ln, LW), bv_eq(b0, 45, 8)) if sg else False
    sign = b_or(has_plus, has_minus)
    ndig = ite_bv(sign, bv_sub(f.ln, 1, LW), f.ln, LW)
    ok = b_not(bv_eq(ndig, 0, LW))
    # accumulate in w+8 bits to detect overflow exactly
    W = w + 8
    acc = 0; over = False
    for i in range(n):
        b = f.bs[i]
        inr = bv_ult(i, f.ln, LW)
        isd = byte_in_range(b, 48, 57) if radix == 10 else b_or(byte_in_range(b, 48, 57), byte_in_range(b, 65, 70), byte_in_range(b, 97, 102))
        is_sign_pos = b_and(sign, i == 0)
        digit_here = b_and(inr, b_not(is_sign_pos))
        ok = b_and(ok, b_or(b_not(digit_here), isd))
        if radix == 10:
            d = (b - 48) if isinstance(b, int) else z3.ZeroExt(W - 8, b - 48)
        else:
            if isinstance(b, int): d = (b - 48) if b <= 57 else ((b | 32) - 87)
            else: d = z3.ZeroExt(W - 8, z3.If(z3.ULE(b, 57), b - 48, (b | 32) - 87))
        if isinstance(acc, int) and isinstance(d, int) and isinstance(digit_here, bool):
            if digit_here: acc = acc * radix + d
        else:
            accz = bvval(acc, W) if isinstance(acc, int) else acc
            dz = bvval(d, W) if isinstance(d, int) else d
            nxt = ((accz << 3) + (accz << 1) + dz) if radix == 10 else ((accz << 4) + dz)     # acc*radix + d without a multiplier
            acc = z3.If(zb(digit_here), nxt, accz)
            limit = bvval((1 << (w - 1)) if sg else (1 << w) - 1, W)
            # magnitude limit: unsigned max, or 2^(w-1) (negatives reach it, positives 2^(w-1)-1)
            over = b_or(over, b_and(digit_here, z3.UGT(nxt, limit)))
    if isinstance(acc, int):
        mag = acc
        lim = (1 << (w - 1)) if sg else (1 << w) - 1
        if mag > lim: return False, None
        accz = bvval(acc, W)
    else:
        accz = acc
    if sg:
        # positive must be <= 2^(w-1)-1
        over = b_or(over, b_and(b_not(has_minus), z3.UGT(accz, bvval((1 << (w - 1)) - 1, W))))
        val = z3.Extract(w - 1, 0, z3.If(zb(has_minus), -accz, accz))
    else:
        val = z3.Extract(w - 1, 0, accz)
    ok = b_and(ok, b_not(over))
    return ok, Int(ty, simp_bv(val) if ok is True else val)


@model(r'^core::str::<impl str>::parse$')
def m_parse(ex, st, c):
    ty = re.search(r'parse::<(.*)>$', c.callee).group(1)
    s = D(ex, st, c.args[0])
    if ty in WIDTH and ty != 'char':
        ok, v = parse_int(s, ty)
        if ok is False: return Err(Opaque('ParseIntError'))
        return Fork([(ok, Ok(v)), (b_not(ok), Err(Opaque('ParseIntError')))])
    if ty == 'bool':
        t = s.eq(SymStr.const('true')); f = s.eq(SymStr.const('false'))
        return Fork([(t, Ok(True)), (f, Ok(False)), (b_and(b_not(t), b_not(f)), Err(Opaque('ParseBoolError')))])
    if ty == 'String': return Ok(s)
    if ty in ('f64', 'f32'):
        return StopR('domain:float', 'str::parse::<%s> is outside the modelled fragment' % ty)
    fn = ex.resolve('<%s as FromStr>::from_str' % ty) or ex.resolve('<%s as FromStr>::from_str' % ty.split('::')[-1])
    if fn is not None: return CallFn(fn, [s], lambda ex_, st_, r: r)
    raise Unsupported('parse::<%s>' % ty)


@model(r'^core::num::<impl (u8|u16|u32|u64|usize|i8|i16|i32|i64)>::from_str_radix$')
def m_from_str_radix(ex, st, c):
    ty = re.search(r'<impl (\w+)>', c.callee).group(1)
    s = D(ex, st, c.args[0]); radix = D(ex, st, c.args[1])
    if not radix.conc or radix.v not in (10, 16): raise Unsupported('from_str_radix radix %r' % (radix,))
    ok, v = parse_int(s, ty, radix.v)
    if ok is False: return Err(Opaque('ParseIntError'))
    return Fork([(ok, Ok(v)), (b_not(ok), Err(Opaque('ParseIntError')))])


@model(r'^core::num::<impl (u8|u16|u32|u64|usize|u128)>::(saturating_sub|saturating_add|wrapping_sub|wrapping_add|checked_sub|checked_add|checked_mul|min|max|abs_diff)$',
       r'^std::cmp::(min|max)$', r'^<(u8|u16|u32|u64|usize) as Ord>::(min|max)$')
def m_int_methods(ex, st, c):
    op = strip_generics(c.callee).rsplit('::', 1)[1]
    a = D(ex, st, c.args[0]); b = D(ex, st, c.args[1])
    if a.ty in SIGNED: raise Unsupported('signed ' + op)
    lt = int_binop('Lt', a, b)
    if op == 'saturating_sub': return ite(lt, Int(a.ty, 0), int_binop('Sub', a, b))
    if op == 'wrapping_sub': return int_binop('Sub', a, b)
    if op == 'wrapping_add': return int_binop('Add', a, b)
    if op == 'min': return ite(lt, a, b)
    if op == 'max': return ite(lt, b, a)
    if op == 'abs_diff': return ite(lt, int_binop('Sub', b, a), int_binop('Sub', a, b))
    if op == 'checked_sub': return Fork([(lt, NONE), (b_not(lt), Some(int_binop('Sub', a, b)))])
    if op in ('saturating_add', 'checked_add'):
        r, ov = int_binop('AddWithOverflow', a, b)
        if op == 'saturating_add': return ite(ov, Int(a.ty, (1 << WIDTH[a.ty]) - 1), r)
        return Fork([(ov, NONE), (b_not(ov), Some(r))])
    if op == 'checked_mul':
        r, ov = int_binop('MulWithOverflow', a, b)
        return Fork([(ov, NONE), (b_not(ov), Some(r))])
    raise Unsupported(op)


def not_char_boundary(ex, s, idx):
    """str slicing: `idx` falls inside a multi-byte character (only possible when non-ASCII text is in the domain)"""
    if not getattr(ex, 'allow_non_ascii', False): return False
    f = s.flat()
    if isinstance(idx, int):
        if idx <= 0 or idx >= f.cap: return False
        b = f.bs[idx]
        inside = bv_ult(idx, f.ln, LW)
    else:
        b = f.byte_at(idx); inside = b_and(bv_ult(idx, f.ln, LW), b_not(bv_eq(idx, 0, LW)))
    if isinstance(b, int): cont = (b & 0xC0) == 0x80
    else:
        d = byte_domain(b)
        if d is not None and not any((x & 0xC0) == 0x80 for x in d): cont = False
        else: cont = (z3.Extract(7, 6, b) == 2)
    return b_and(inside, cont)


@model(r'^core::str::<impl str>::get$', r'^core::str::<impl str>::get_mut$')
def m_str_get(ex, st, c):
    s = D(ex, st, c.args[0]); r = D(ex, st, c.args[1])
    fs = r.fields if isinstance(r, Struct) else r.data
    ty = c.callee
    n = usize(s.length())
    if 'RangeFrom' in ty: a, b = fs[0], n
    elif 'RangeTo' in ty: a, b = usize(0), fs[0]
    elif 'Range<' in ty: a, b = fs[0], fs[1]
    else: raise Unsupported('str::get with ' + ty)
    bad = b_or(int_binop('Gt', a, b), int_binop('Gt', b, n))
    if bad is True: return NONE
    # char boundaries matter only when non-ASCII text is in the domain (ex.allow_non_ascii)
    bad = b_or(bad, not_char_boundary(ex, s, a.v), not_char_boundary(ex, s, b.v))
    return Fork([(bad, NONE), (b_not(bad), LazyR(lambda: Some(s.substr(a.v, bv_sub(b.v, a.v, LW)))))])


def int_to_dec(ex, st, v):
    """decimal rendering of an Int as SymStr.  Symbolic values are rendered through a bounded digit circuit:
    the value must fit ex.dec_digits digits on the path (otherwise terminal 'bound:itoa')."""
    if v.conc:
        return SymStr.const(str(v.signed_val() if v.ty in SIGNED else v.v)), True
    w = WIDTH[v.ty]
    K = ex.dec_digits
    # narrow to W bits where 10^K < 2^W
    W = max(8, (10 ** K).bit_length() + 1)
    if v.ty in SIGNED:
        neg = v.v < 0
        mag = z3.If(neg, -v.v, v.v)
    else:
        neg = False; mag = v.v
    fits = z3.ULT(mag, bvval(10 ** K, w)) if w > W else True
    m = z3.Extract(W - 1, 0, mag) if w > W else (z3.ZeroExt(W - w, mag) if w < W else mag)
    digs = []
    for k in range(K):
        digs.append(z3.Extract(7, 0, z3.URem(z3.UDiv(m, bvval(10 ** k, W)), bvval(10, W))) + 48)
    # number of digits
    nd = bvval(1, LW)
    for k in range(1, K):
        nd = z3.If(z3.UGE(m, bvval(10 ** k, W)), bvval(k + 1, LW), nd)
    bs = []
    for i in range(K):
        # byte i = digit (nd-1-i)
        b = bvval(0, 8)
        for k in range(K):
            b = z3.If(nd == bvval(i + k + 1, LW), digs[k], b) if i + k + 1 <= K else b
        bs.append(z3.If(z3.UGT(nd, bvval(i, LW)), b, bvval(0, 8)))
    body = SymStr((Atom(nd, tuple(bs), 1),))
    if neg is not False:
        sign = SymStr((Atom(z3.If(neg, bvval(1, LW), bvval(0, LW)), (z3.If(neg, bvval(45, 8), bvval(0, 8)),)),))
        body = sign.concat(body)
    return body, fits


@model(r'^<(u8|u16|u32|u64|u128|usize|i8|i16|i32|i64|i128|isize) as ToString>::to_string$', r'^<&(u8|u16|u32|u64|usize|i32|i64|i128) as ToString>::to_string$')
def m_int_to_string(ex, st, c):
    s, fits = int_to_dec(ex, st, D(ex, st, c.args[0]))
    if fits is True: return s
    return Fork([(fits, s), (b_not(fits), StopR('bound:itoa', 'integer with more than %d digits' % ex.dec_digits))])


@model(r'^<bool as ToString>::to_string$', r'^<&bool as ToString>::to_string$')
def m_bool_to_string(ex, st, c):
    b = D(ex, st, c.args[0])
    if isinstance(b, bool): return SymStr.const('true' if b else 'false')
    t = SymStr.const('true'); f = SymStr.const('false')
    return Fork([(b, t), (b_not(b), f)])


@model(r'^<char as ToString>::to_string$', r'^<&char as ToString>::to_string$')
def m_char_to_string(ex, st, c):
    v = D(ex, st, c.args[0])
    if v.conc: return SymStr.const(chr(v.v).encode('utf-8'))
    asc = z3.ULT(v.v, 0x80)
    return Fork([(asc, SymStr((Atom(1, (z3.Extract(7, 0, v.v),)),))), (b_not(asc), StopR('domain:non-ascii', 'char >= 0x80 rendered'))])


# ------------------------------------------------------------------ chars
def chars_domain(ex, st, s):
    return s


@model(r'^core::str::<impl str>::chars$')
def m_chars(ex, st, c): return Opaque('Chars', (D(ex, st, c.args[0]), 0))


def char_of(b):
    return Int('char', b if isinstance(b, int) else z3.ZeroExt(24, b))


def utf8_char_table(s):
    """for a valid UTF-8 string (<= 2-byte sequences decoded exactly; 3/4-byte leads are reported via `wide`):
    returns (nchars, [(is_start_i, rank_i, charvalue_i)], wide)"""
    f = s.flat(); n = f.cap
    starts = []; rank = 0; wide = False
    for i in range(n):
        b = f.bs[i]
        inr = bv_ult(i, f.ln, LW)
        cont = b_and(bv_ule(0x80, b, 8), bv_ult(b, 0xC0, 8)) if not isinstance(b, int) else (0x80 <= b < 0xC0)
        is_start = b_and(inr, b_not(cont))
        two = b_and(bv_ule(0xC0, b, 8), bv_ult(b, 0xE0, 8)) if not isinstance(b, int) else (0xC0 <= b < 0xE0)
        three_plus = bv_ule(0xE0, b, 8) if not isinstance(b, int) else (b >= 0xE0)
        wide = b_or(wide, b_and(is_start, three_plus))
        nb = f.bs[i + 1] if i + 1 < n else 0
        if isinstance(b, int) and isinstance(nb, int):
            cv = (((b & 0x1f) << 6) | (nb & 0x3f)) if 0xC0 <= b < 0xE0 else b
        else:
            bz = bvval(b, 8) if isinstance(b, int) else b; nz = bvval(nb, 8) if isinstance(nb, int) else nb
            cv2 = (z3.ZeroExt(24, bz & 0x1f) << 6) | z3.ZeroExt(24, nz & 0x3f)
            cv = z3.If(zb(two), cv2, z3.ZeroExt(24, bz))
        starts.append((is_start, rank, cv))
        rank = ite_bv(is_start, bv_add(rank, 1, LW), rank, LW)
    return rank, starts, wide


@model(r"^<Chars<'_> as Iterator>::count$")
def m_chars_count(ex, st, c):
    s, pos = D(ex, st, c.args[0]).data
    if ex.allow_non_ascii and not (isinstance(pos, int) and pos == 0): raise Unsupported('advanced Chars with non-ASCII text')
    if ex.allow_non_ascii:
        nchars, _, wide = utf8_char_table(s)
        return Fork([(wide, StopR('domain:wide-utf8', '3/4-byte UTF-8 sequence')), (b_not(wide), usize(nchars))])
    return usize(bv_sub(s.length(), pos, LW))


@model(r"^<Chars<'_> as Iterator>::last$")
def m_chars_last(ex, st, c):
    if ex.allow_non_ascii: raise Unsupported('m_chars_last is not UTF-8 aware (non-ASCII domain enabled)')
    s, pos = D(ex, st, c.args[0]).data
    n = s.length()
    if isinstance(n, int) and isinstance(pos, int):
        if n <= pos: return NONE
        return Some(char_of(s.flat().bs[n - 1]))
    empty = bv_ule(n, pos, LW)
    last = s.flat().byte_at(bv_sub(n, 1, LW))
    return Fork([(empty, NONE), (b_not(empty), Some(char_of(last)))])


@model(r"^<Chars<'_> as Iterator>::nth$")
def m_chars_nth(ex, st, c):
    it = D(ex, st, c.args[0]); s, pos = it.data
    k = D(ex, st, c.args[1])
    if ex.allow_non_ascii:
        if not (isinstance(pos, int) and pos == 0) or isinstance(c.args[0], MutRef) and False: raise Unsupported('advanced Chars with non-ASCII text')
        nchars, table, wide = utf8_char_table(s)
        oob = bv_ule(nchars, k.v, LW)
        cv = 0
        for is_start, rank, val in reversed(table):
            hit = b_and(is_start, bv_eq(rank, k.v, LW))
            if hit is False: continue
            cv = val if hit is True else ite_bv(hit, val, cv, 32)
        return Fork([(wide, StopR('domain:wide-utf8', '3/4-byte UTF-8 sequence')), (b_and(b_not(wide), oob), NONE), (b_and(b_not(wide), b_not(oob)), Some(Int('char', cv)))])
    idx = bv_add(pos, k.v, LW)
    n = s.length()
    oob = bv_ule(n, idx, LW)
    b = s.byte_at(idx) if isinstance(idx, int) else s.flat().byte_at(idx)
    ref = c.args[0]
    if isinstance(ref, MutRef):
        return ForkStore([(oob, NONE, (ref, Opaque('Chars', (s, n)))), (b_not(oob), Some(char_of(b)), (ref, Opaque('Chars', (s, bv_add(idx, 1, LW)))))])
    return Fork([(oob, NONE), (b_not(oob), Some(char_of(b)))])


@model(r"^<Chars<'_> as Iterator>::next$")
def m_chars_next(ex, st, c):
    if ex.allow_non_ascii: raise Unsupported('m_chars_next is not UTF-8 aware (non-ASCII domain enabled)')
    it = D(ex, st, c.args[0]); s, pos = it.data
    n = s.length(); oob = bv_ule(n, pos, LW)
    b = s.byte_at(pos) if isinstance(pos, int) else s.flat().byte_at(pos)
    ref = c.args[0]
    return ForkStore([(oob, NONE, None), (b_not(oob), Some(char_of(b)), (ref, Opaque('Chars', (s, bv_add(pos, 1, LW)))))])


@model(r"^<Chars<'_> as Iterator>::rev$")
def m_chars_rev(ex, st, c):
    if ex.allow_non_ascii: raise Unsupported('m_chars_rev is not UTF-8 aware (non-ASCII domain enabled)')
    s, pos = D(ex, st, c.args[0]).data
    return Opaque('RevChars', (s, pos))


@model(r"^<Rev<Chars<'_>> as Iterator>::collect$")
def m_rev_collect(ex, st, c):
    if ex.allow_non_ascii: raise Unsupported('m_rev_collect is not UTF-8 aware (non-ASCII domain enabled)')
    s, pos = D(ex, st, c.args[0]).data
    if pos != 0: raise Unsupported('rev of advanced chars')
    f = s.flat()
    if f.conc_len: return SymStr((Atom(f.ln, tuple(reversed(f.bs))),))
    n = f.cap
    bs = [f.byte_at(bv_sub(bv_sub(f.ln, 1, LW), i, LW)) for i in range(n)]
    bs = [ite_bv(bv_ult(i, f.ln, LW), b, 0, 8) for i, b in enumerate(bs)]
    return SymStr((Atom(f.ln, tuple(bs), f.minlen),))


@model(r"^<Chars<'_> as Iterator>::skip$")
def m_chars_skip(ex, st, c):
    if ex.allow_non_ascii: raise Unsupported('m_chars_skip is not UTF-8 aware (non-ASCII domain enabled)')
    s, pos = D(ex, st, c.args[0]).data; k = D(ex, st, c.args[1])
    return Opaque('SkipChars', (s, bv_add(pos, k.v, LW)))


@model(r"^<Skip<Chars<'_>> as Iterator>::collect$", r"^<Chars<'_> as Iterator>::collect$")
def m_skip_collect(ex, st, c):
    s, pos = D(ex, st, c.args[0]).data
    if ex.allow_non_ascii:
        if not (isinstance(pos, int) and pos == 0) or 'Vec<char>' not in c.callee: raise Unsupported('collect of Chars with non-ASCII text: ' + c.callee)
        nchars, table, wide = utf8_char_table(s)
        cap = len(table)
        alts = [(wide, StopR('domain:wide-utf8', '3/4-byte UTF-8 sequence'))]
        lo, hi = bounds(nchars)
        for k in range(lo, min(hi, cap) + 1):
            items = []
            for j in range(k):
                cv = 0
                for is_start, rank, val in reversed(table):
                    hit = b_and(is_start, bv_eq(rank, j, LW))
                    if hit is False: continue
                    cv = val if hit is True else ite_bv(hit, val, cv, 32)
                items.append(Int('char', cv))
            alts.append((b_and(b_not(wide), bv_eq(nchars, k, LW)), Vec(items)))
        return Fork(alts)
    n = s.length()
    if isinstance(pos, int) and isinstance(n, int):
        r = s.substr(min(pos, n), max(0, n - pos))
    else:
        start = ite_bv(bv_ult(pos, n, LW), pos, n, LW)
        r = s.suffix_from(start)
    if 'Vec<char>' in c.callee:
        f = r.flat()
        if not f.conc_len: raise Unsupported('collect::<Vec<char>> of symbolic-length string')
        return Vec([char_of(b) for b in f.bs])
    return r


def _char_domain(x):
    """admissible values of a char term that is the zero-extension of a registered input byte, else None"""
    try:
        if isinstance(x, int): return None
        if x.decl().kind() == z3.Z3_OP_ZERO_EXT: x = x.arg(0)
        return byte_domain(x)
    except Exception:
        return None


def _fold_class(res, v, py_pred):
    """decide a character-class test outright when the byte's input alphabet settles it"""
    if isinstance(res, bool): return res
    d = _char_domain(v.v)
    if d:
        vals = [bool(py_pred(x)) for x in d]
        if all(vals): return True
        if not any(vals): return False
    return res


@model(r'^char::methods::<impl char>::is_whitespace$', r'^char::methods::is_whitespace$')
def m_is_whitespace(ex, st, c):
    v = D(ex, st, c.args[0])
    if v.conc: return chr(v.v).isspace() if v.v >= 0x80 else v.v in (9, 10, 11, 12, 13, 32)
    b = z3.Extract(7, 0, v.v)
    return _fold_class(b_and(z3.ULT(v.v, 0x80), is_ws(b)), v, lambda x: x in (9, 10, 11, 12, 13, 32))   # non-ASCII whitespace (U+0085, U+00A0, ...) is outside the domain


@model(r'^char::methods::<impl char>::is_numeric$', r'^char::methods::is_numeric$', r'^char::methods::<impl char>::is_ascii_digit$')
def m_is_numeric(ex, st, c):
    v = D(ex, st, c.args[0])
    if v.conc: return chr(v.v).isnumeric() if v.v >= 0x80 else 48 <= v.v <= 57
    return _fold_class(z3.And(z3.UGE(v.v, 48), z3.ULE(v.v, 57)), v, lambda x: 48 <= x <= 57)


@model(r'^char::methods::<impl char>::is_ascii_control$', r'^char::methods::is_ascii_control$', r'^char::methods::<impl char>::is_control$', r'^char::methods::is_control$')
def m_is_control(ex, st, c):
    v = D(ex, st, c.args[0])
    uni = 'is_control' in c.callee and 'ascii' not in c.callee
    if v.conc: return v.v < 32 or v.v == 127 or (uni and 0x80 <= v.v <= 0x9f)
    r = z3.Or(z3.ULT(v.v, 32), v.v == 127)
    if uni: r = z3.Or(r, z3.And(z3.UGE(v.v, 0x80), z3.ULE(v.v, 0x9f)))
    return _fold_class(r, v, lambda x: x < 32 or x == 127 or (uni and 0x80 <= x <= 0x9f))


@model(r'^char::methods::<impl char>::is_alphanumeric$', r'^char::methods::<impl char>::is_ascii_alphanumeric$')
def m_is_alnum(ex, st, c):
    v = D(ex, st, c.args[0])
    if v.conc: return chr(v.v).isalnum()
    x = v.v
    return _fold_class(z3.Or(z3.And(z3.UGE(x, 48), z3.ULE(x, 57)), z3.And(z3.UGE(x, 65), z3.ULE(x, 90)), z3.And(z3.UGE(x, 97), z3.ULE(x, 122))), v, lambda y: 48 <= y <= 57 or 65 <= y <= 90 or 97 <= y <= 122)


# ------------------------------------------------------------------ iterators over concrete-length sequences
def to_iter(ex, st, v, callee=''):
    if isinstance(v, Iter) or (isinstance(v, Opaque) and v.tag in ('Chars', 'Lines', 'HashIter')): return v
    if isinstance(v, Vec): return Iter('vec', v.items)
    if isinstance(v, SymStr):
        f = v.flat()
        if not f.conc_len: return Opaque('Bytes', (v, 0))
        return Iter('vec', [Int('u8', b) for b in f.bs])
    if isinstance(v, Struct) and v.ty.endswith('Range'): return Opaque('Range', (v.fields[0], v.fields[1]))
    if isinstance(v, Opaque) and v.tag in ('Range', 'RangeInclusive', 'Split', 'HashMap', 'SkipChars', 'RevChars', 'Bytes', 'Incoming', 'Args'):
        if v.tag == 'HashMap': return Iter('vec', [Tup(kv) for kv in v.data])
        return v
    raise Unsupported('into_iter of %r (%s)' % (v, callee))


@model(r'^core::slice::<impl \[.*\]>::iter$', r'^Vec::<.*>::iter$', r'^Vec::iter$', r'^core::slice::<impl \[.*\]>::into_iter$')
def m_slice_iter(ex, st, c): return to_iter(ex, st, D(ex, st, c.args[0]))


@model(r"^<std::vec::IntoIter<.*> as Iterator>::next$", r"^<std::slice::Iter<'_, .*> as Iterator>::next$")
def m_iter_next(ex, st, c):
    it = D(ex, st, c.args[0])
    if isinstance(it, Opaque) and it.tag == 'Bytes':
        s, pos = it.data
        n = s.length(); oob = bv_ule(n, pos, LW)
        b = s.flat().byte_at(pos)
        return ForkStore([(oob, NONE, None), (b_not(oob), Some(Int('u8', b)), (c.args[0], Opaque('Bytes', (s, bv_add(pos, 1, LW)))))])
    if it.pos >= len(it.items): return NONE
    ex.store(st, c.args[0], Iter(it.kind, it.items, it.pos + 1, it.extra))
    return Some(it.items[it.pos])


@model(r"^<std::slice::Iter<'_, .*> as Iterator>::enumerate$", r"^<std::vec::IntoIter<.*> as Iterator>::enumerate$")
def m_enumerate(ex, st, c):
    it = D(ex, st, c.args[0])
    if not isinstance(it, Iter): raise Unsupported('enumerate over %r' % (it,))
    return Iter('enum', [Tup((usize(i), x)) for i, x in enumerate(it.items[it.pos:])])


@model(r"^<Enumerate<.*> as Iterator>::next$")
def m_enum_next(ex, st, c): return m_iter_next(ex, st, c)


@model(r"^<std::slice::Iter<'_, .*> as Iterator>::find$", r"^<std::vec::IntoIter<.*> as Iterator>::find$")
def m_iter_find(ex, st, c):
    it = D(ex, st, c.args[0]); clo = c.args[1]
    items = it.items[it.pos:]

    def step(i):
        if i >= len(items): return NONE
        # closure signature: FnMut(&Self::Item) -> bool ; receives (&mut closure, (&item,)) -> MIR params (_1: &mut closure, _2: &Item)
        def cont(ex_, st_, r):
            r = simp_bool(r) if not isinstance(r, bool) else r
            if r is True: return Some(items[i])
            if r is False: return step(i + 1)
            return Fork([(r, Some(items[i])), (b_not(r), LazyR(lambda: step(i + 1)))])
        return CallFn(clo, [items[i]], cont)
    return step(0)


class _CapOblig:
    """result valid under the assumption `not over`; the executor discharges all such assumptions with one query per terminal path"""

    def __init__(s, over, v, cap): s.over = over; s.v = v; s.cap = cap


class LazyR:
    """a result computed only when its branch is taken"""

    def __init__(s, thunk): s.thunk = thunk


@model(r"^<std::slice::Iter<'_, char> as Iterator>::collect$", r"^<std::vec::IntoIter<char> as Iterator>::collect$")
def m_chars_vec_collect(ex, st, c):
    it = D(ex, st, c.args[0])
    items = it.items[it.pos:]
    if 'collect::<String>' in c.callee:
        bs = []
        for x in items:
            x = D(ex, st, x)
            if x.conc:
                bs.extend(chr(x.v).encode('utf-8'))
            else:
                bs.append(z3.Extract(7, 0, x.v))
        return SymStr.from_bytes_list(bs)
    return Vec(items)


@model(r"^<std::ops::RangeInclusive<char> as Iterator>::collect$")
def m_range_incl_collect(ex, st, c):
    r = D(ex, st, c.args[0])
    a, b = r.data
    return Vec([Int('char', x) for x in range(a.v, b.v + 1)])


@model(r'^std::ops::RangeInclusive::<.*>::new$', r'^std::ops::RangeInclusive::new$')
def m_range_incl_new(ex, st, c): return Opaque('RangeInclusive', (D(ex, st, c.args[0]), D(ex, st, c.args[1])))


@model(r"^<std::ops::Range<usize> as Iterator>::next$")
def m_range_next(ex, st, c):
    r = D(ex, st, c.args[0])
    if isinstance(r, Struct): a, b = r.fields
    else: a, b = r.data
    lt = int_binop('Lt', a, b)
    nxt = int_binop('Add', a, usize(1))
    newr = Struct(r.ty, (nxt, b)) if isinstance(r, Struct) else Opaque('Range', (nxt, b))
    return ForkStore([(lt, Some(a), (c.args[0], newr)), (b_not(lt), NONE, None)])


@model(r'^core::slice::<impl \[.*\]>::get$', r'^Vec::<.*>::get$')
def m_slice_get(ex, st, c):
    v = D(ex, st, c.args[0]); i = D(ex, st, c.args[1])
    if isinstance(v, Vec):
        if isinstance(i, Int):
            if i.conc: return Some(v.items[i.v]) if i.v < len(v.items) else NONE
            mv = merge_vals([(i.v == k, D(ex, st, x)) for k, x in enumerate(v.items)]) if v.items else None
            if mv is not None:
                inb = z3.ULT(i.v, len(v.items))
                return Fork([(inb, Some(mv)), (b_not(inb), NONE)])
            alts = [(i.v == k, Some(x)) for k, x in enumerate(v.items)]
            alts.append((z3.UGE(i.v, len(v.items)), NONE))
            return Fork(alts)
        raise Unsupported('slice::get with range on Vec')
    if isinstance(i, Int):
        n = v.length(); oob = bv_ule(n, i.v, LW)
        return Fork([(oob, NONE), (b_not(oob), Some(Int('u8', v.byte_at(i.v) if i.conc else v.flat().byte_at(i.v))))])
    raise Unsupported('slice::get %r' % (i,))


@model(r'^core::slice::<impl \[.*\]>::last$', r'^core::slice::<impl \[.*\]>::first$')
def m_slice_last(ex, st, c):
    v = D(ex, st, c.args[0]); last = c.callee.endswith('last')
    if isinstance(v, Vec):
        if not v.items: return NONE
        return Some(v.items[-1] if last else v.items[0])
    n = v.length(); empty = bv_eq(n, 0, LW)
    b = v.flat().byte_at(bv_sub(n, 1, LW)) if last else v.byte_at(0)
    return Fork([(empty, NONE), (b_not(empty), Some(Int('u8', b)))])


@model(r'^<Vec<.*> as Index<usize>>::index$', r'^<\[.*\] as Index<usize>>::index$', r'^<Vec<.*> as IndexMut<usize>>::index_mut$')
def m_vec_index(ex, st, c):
    v = D(ex, st, c.args[0]); i = D(ex, st, c.args[1])
    if 'index_mut' in c.callee: raise Unsupported('index_mut')
    if isinstance(v, Vec):
        if i.conc:
            if i.v >= len(v.items): return Panic('index out of bounds: the len is %d but the index is %d' % (len(v.items), i.v))
            return v.items[i.v]
        alts = [(i.v == k, x) for k, x in enumerate(v.items)]
        alts.append((z3.UGE(i.v, len(v.items)), Panic('index out of bounds')))
        return Fork(alts)
    n = v.length(); oob = bv_ule(n, i.v, LW)
    return Fork([(oob, Panic('index out of bounds')), (b_not(oob), Int('u8', v.byte_at(i.v) if i.conc else v.flat().byte_at(i.v)))])


@model(r'^<(String|str|Vec<.*>|\[.*\]) as Index<(std::ops::)?Range(To|From|Inclusive|ToInclusive)?<usize>>>::index$')
def m_range_index(ex, st, c):
    v = D(ex, st, c.args[0]); r = D(ex, st, c.args[1])
    kind = re.search(r'Index<(?:std::ops::)?(Range\w*)<usize>', c.callee).group(1)
    n = usize(v.length()) if isinstance(v, SymStr) else usize(len(v.items))
    fs = r.fields if isinstance(r, Struct) else r.data
    if kind == 'Range': a, b = fs[0], fs[1]
    elif kind == 'RangeTo': a, b = usize(0), fs[0]
    elif kind == 'RangeFrom': a, b = fs[0], n
    else: raise Unsupported('index by ' + kind)
    bad = b_or(int_binop('Gt', a, b), int_binop('Gt', b, n))
    if isinstance(v, Vec):
        if not (a.conc and b.conc): raise Unsupported('symbolic range index into Vec')
        if bad is True: return Panic('range index out of bounds')
        return Vec(v.items[a.v:b.v])
    if bad is True: return Panic('range index out of bounds')
    sub = v.substr(a.v, bv_sub(b.v, a.v, LW))
    alts = [(bad, Panic('slice index out of range'))]
    ok = b_not(bad)
    if re.match(r'^<(String|str) as', c.callee):
        ncb = b_or(not_char_boundary(ex, v, a.v), not_char_boundary(ex, v, b.v))
        if ncb is not False:
            alts.append((b_and(ok, ncb), Panic('byte index is not a char boundary')))
            ok = b_and(ok, b_not(ncb))
    alts.append((ok, sub))
    return Fork(alts)


@model(r'^core::slice::<impl \[.*\]>::windows$')
def m_windows(ex, st, c):
    v = D(ex, st, c.args[0]); n = D(ex, st, c.args[1])
    z = int_binop('Eq', n, usize(0))
    return Fork([(z, Panic('window size must be non-zero')), (b_not(z), Opaque('Windows', (v, n)))])


# ------------------------------------------------------------------ formatting
@model(r'^core::fmt::rt::Argument::<.*>::new_display$', r'^core::fmt::rt::Argument::new_display$')
def m_arg_display(ex, st, c): return Opaque('fmtarg', ('display', D(ex, st, c.args[0])))


@model(r'^core::fmt::rt::Argument::<.*>::new_debug$', r'^core::fmt::rt::Argument::new_debug$')
def m_arg_debug(ex, st, c): return Opaque('fmtarg', ('debug', D(ex, st, c.args[0])))


@model(r'^core::fmt::rt::Argument::<.*>::new_binary$', r'^core::fmt::rt::Argument::new_binary$', r'^core::fmt::rt::Argument::<.*>::new_lower_hex$', r'^core::fmt::rt::Argument::new_lower_hex$',
       r'^core::fmt::rt::Argument::(<.*>::)?new_upper_hex$')
def m_arg_binary(ex, st, c): return Opaque('fmtarg', ('binary' if 'binary' in c.callee else 'HEX' if 'upper_hex' in c.callee else 'hex', D(ex, st, c.args[0])))


@model(r'^core::fmt::rt::Argument::<.*>::from_usize$', r'^core::fmt::rt::Argument::from_usize$')
def m_arg_usize(ex, st, c): return Opaque('fmtarg', ('usize', D(ex, st, c.args[0])))


@model(r"^Arguments::<'_>::new$", r'^Arguments::new$', r"^Arguments::<.*>::new$")
def m_args_new(ex, st, c):
    t = D(ex, st, c.args[0]).concrete()
    return Opaque('fmtargs', (t, D(ex, st, c.args[1]).items))


@model(r"^Arguments::<'_>::from_str$", r'^Arguments::from_str$', r"^Arguments::<.*>::from_str$", r"^Arguments::<.*>::new_const$")
def m_args_from_str(ex, st, c):
    return Opaque('fmtargs', (None, D(ex, st, c.args[0])))


def render_display(ex, st, kind, v, flags=None):
    v = D(ex, st, v)
    if kind == 'display' or kind == 'usize':
        if isinstance(v, SymStr): return v
        if isinstance(v, Int):
            if v.ty == 'char':
                if v.conc: return SymStr.const(chr(v.v).encode('utf-8'))
                return SymStr((Atom(1, (z3.Extract(7, 0, v.v),)),))
            s, fits = int_to_dec(ex, st, v)
            if fits is not True:
                st.world['_itoa_oblig'] = st.world.get('_itoa_oblig', ()) + (fits,)
            return s
        if isinstance(v, bool): return SymStr.const('true' if v else 'false')
        if isinstance(v, Opaque): return opaque_msg(ex, st, v.tag)
        if hasattr(v, 'sort') and z3.is_bool(v):
            return SymStr((Atom(z3.If(v, bvval(4, LW), bvval(5, LW)), tuple(z3.If(v, bvval(a, 8), bvval(b, 8)) for a, b in zip(b'true\0', b'false'))),))
    if kind in ('binary', 'hex', 'HEX') and isinstance(v, Int):
        if v.conc: return SymStr.const(format(v.v & ((1 << WIDTH[v.ty]) - 1), {'binary': 'b', 'hex': 'x', 'HEX': 'X'}[kind]))
        return opaque_msg(ex, st, kind)     # text of a symbolic number in base 2 / 16: opaque (must not flow into an asserted value)
    if kind == 'debug':
        return opaque_msg(ex, st, 'debug')
    raise Unsupported('format %s of %r' % (kind, v))


@model(r'^format$', r'^alloc::fmt::format$', r'^std::fmt::format$')
def m_format(ex, st, c):
    a = D(ex, st, c.args[0])
    t, args = a.data
    if t is None: return args
    out = []; i = 0; argi = 0
    while True:
        n = t[i]; i += 1
        if n == 0: break
        if n < 0x80:
            out.append(SymStr.const(t[i:i + n])); i += n
        elif n == 0x80:
            ln = t[i] | (t[i + 1] << 8); i += 2
            out.append(SymStr.const(t[i:i + ln])); i += ln
        elif n == 0xC0:
            kind, v = args[argi].data; argi += 1
            out.append(render_display(ex, st, kind, v))
        else:
            flags = width = prec = None
            if n & 1: flags = int.from_bytes(t[i:i + 4], 'little'); i += 4
            if n & 2: width = int.from_bytes(t[i:i + 2], 'little'); i += 2
            if n & 4: prec = int.from_bytes(t[i:i + 2], 'little'); i += 2
            if n & 8: argi = int.from_bytes(t[i:i + 2], 'little'); i += 2
            kind, v = args[argi].data; argi += 1
            vv = D(ex, st, v)
            if width is None and prec is None and not flags:
                out.append(render_display(ex, st, kind, v))
            elif kind in ('binary', 'hex', 'HEX') and isinstance(vv, Int) and vv.conc and width is not None:
                s = format(vv.v & ((1 << WIDTH[vv.ty]) - 1), {'binary': 'b', 'hex': 'x', 'HEX': 'X'}[kind])
                fill = '0' if (flags or 0) & (1 << 24) or True else ' '
                out.append(SymStr.const(s.rjust(width, '0')))
            elif isinstance(vv, Int) and vv.ty in ('f64', 'f32'):
                return StopR('domain:float', 'float formatting')
            else:
                return StopR('domain:format-spec', 'format spec flags=%r width=%r precision=%r on %r' % (flags, width, prec, vv))
    return SymStr.join(out)


@model(r'^std::io::_print$', r'^std::io::_eprint$')
def m_print(ex, st, c): return UNIT


@model(r'^Formatter::<.*>::write_str$', r'^Formatter::write_str$', r'^Formatter::<.*>::write_fmt$', r'^Formatter::write_fmt$',
       r'^Formatter::<.*>::debug_struct_field\d+_finish$', r'^Formatter::debug_struct_field\d+_finish$', r'^Formatter::<.*>::debug_struct_fields_finish$')
def m_formatter(ex, st, c): return Ok(UNIT)


# ------------------------------------------------------------------ io::Cursor
def mk_cursor(data, pos=0): return Opaque('Cursor', (data, pos))


@model(r'^std::io::Cursor::<.*>::new$', r'^std::io::Cursor::new$')
def m_cursor_new(ex, st, c): return mk_cursor(D(ex, st, c.args[0]))


def cursor_rest(cur):
    data, pos = cur.data
    if isinstance(pos, int) and pos == 0: return data
    return data.suffix_from(pos)


@model(r'^<std::io::Cursor<.*> as std::io::BufRead>::read_until$')
def m_read_until(ex, st, c):
    cur = D(ex, st, c.args[0]); delim = D(ex, st, c.args[1]); buf = D(ex, st, c.args[2])
    rest = cursor_rest(cur)
    found, idx = rest.find(bytes([delim.v])) if delim.conc else find_general(rest, as_str(ex, st, delim))
    n = rest.length()
    K = getattr(ex, 'fork_read_until', 0)
    if K and delim.conc and found is not False and not isinstance(idx, int):
        # opt-in: fork on where the first delimiter is when only a few positions are undecided -- every successor then works
        # with concrete offsets instead of a mux over them
        f = rest.flat()
        cand = []
        for i in range(f.cap):
            b = f.bs[i]
            if isinstance(b, int):
                if b == delim.v: cand.append(i); break
            else: cand.append(i)
        if len(cand) <= K:
            alts = []
            for i in cand:
                cnd = b_and(found, bv_eq(idx, i, LW))
                cnd = simp_bool(cnd) if not isinstance(cnd, bool) else cnd
                if cnd is False: continue
                alts.append((cnd, Ok(usize(i + 1)), ((c.args[2], buf.concat(rest.substr(0, i + 1))), (c.args[0], mk_cursor(rest.suffix_from(i + 1), 0)))))
            nf = b_not(found)
            if nf is not False:
                alts.append((nf, Ok(usize(n)), ((c.args[2], buf.concat(rest)), (c.args[0], mk_cursor(SymStr(()), 0)))))
            return ForkStore(alts)
    take = ite_bv(found, bv_add(idx, 1, LW), n, LW)
    chunk = rest.substr(0, take)
    newrest = rest.suffix_from(take)
    ex.store(st, c.args[2], buf.concat(chunk))
    ex.store(st, c.args[0], mk_cursor(newrest, 0))
    return Ok(usize(take))


@model(r'^<std::io::Cursor<.*> as std::io::Read>::read_to_end$')
def m_read_to_end(ex, st, c):
    cur = D(ex, st, c.args[0]); buf = D(ex, st, c.args[1])
    rest = cursor_rest(cur)
    ex.store(st, c.args[1], buf.concat(rest)); ex.store(st, c.args[0], mk_cursor(SymStr(()), 0))
    return Ok(usize(rest.length()))


@model(r'^<std::io::Cursor<.*> as std::io::Read>::read_exact$')
def m_read_exact(ex, st, c):
    cur = D(ex, st, c.args[0]); bufref = c.args[1]; buf = D(ex, st, bufref)
    rest = cursor_rest(cur)
    want = buf.length()
    short = bv_ult(rest.length(), want, LW)
    got = rest.substr(0, want) if short is not True else None
    alts = []
    # on short read std leaves the cursor at the end and the buffer contents unspecified (it fills what it can)
    alts.append((short, Err(Opaque('std::io::Error')), (c.args[0], mk_cursor(SymStr(()), 0))))
    if got is not None:
        alts.append((b_not(short), Ok(UNIT), ((bufref, got), (c.args[0], mk_cursor(rest.suffix_from(want), 0)))))
    return ForkStore(alts)


@model(r'^<std::io::Cursor<.*> as std::io::BufRead>::lines$')
def m_lines(ex, st, c): return Opaque('Lines', cursor_rest(D(ex, st, c.args[0])))


@model(r"^<std::io::Lines<.*> as Iterator>::next$")
def m_lines_next(ex, st, c):
    rest = D(ex, st, c.args[0]).data
    n = rest.length()
    empty = bv_eq(n, 0, LW)
    found, idx = rest.find(b'\n')
    take = ite_bv(found, bv_add(idx, 1, LW), n, LW)
    line_end = ite_bv(found, idx, n, LW)
    line = rest.substr(0, line_end)
    # strip one trailing '\r' when the line ended with '\n'
    f = line.flat()
    lastb = f.byte_at(bv_sub(line_end, 1, LW)) if not isinstance(line_end, int) else (f.bs[line_end - 1] if line_end > 0 else 0)
    has_cr = b_and(found, b_not(bv_eq(line_end, 0, LW)), bv_eq(lastb, 13, 8))
    line2 = line.substr(0, ite_bv(has_cr, bv_sub(line_end, 1, LW), line_end, LW))
    newrest = rest.suffix_from(take)
    ascii_ = utf8_classes(line2.flat())
    return ForkStore([(empty, NONE, None),
                      (b_and(b_not(empty), ascii_), Some(Ok(line2)), (c.args[0], Opaque('Lines', newrest))),
                      (b_and(b_not(empty), b_not(ascii_)), StopR('domain:non-ascii', 'non-ASCII config line'), None)])


# ------------------------------------------------------------------ misc
@model(r'^core::panicking::panic$', r'^core::panicking::panic_fmt$', r'^std::rt::begin_panic$', r'^core::panicking::panic_bounds_check$',
       r'^core::option::unwrap_failed$', r'^core::result::unwrap_failed$', r'^core::panicking::panic_nounwind$', r'^core::option::expect_failed$',
       r'^core::str::slice_error_fail$', r'^core::slice::index::slice_.*_fail$')
def m_panic(ex, st, c):
    msg = c.callee.split('::')[-1]
    if c.args:
        a = D(ex, st, c.args[0])
        if isinstance(a, SymStr) and a.concrete() is not None: msg = a.concrete().decode('utf-8', 'replace')
        elif isinstance(a, Opaque) and a.tag == 'fmtargs': msg = 'explicit panic'
    return Panic(msg)


@model(r'^std::hint::black_box$', r'^core::hint::black_box$', r'^std::mem::drop$', r'^core::mem::drop$', r'^drop$')
def m_drop(ex, st, c): return UNIT if 'drop' in c.callee else c.args[0]


# ------------------------------------------------------------------ HashMap<String, String> as an association list
@model(r'^HashMap::<.*>::new$', r'^HashMap::new$', r'^<HashMap<.*> as Default>::default$')
def m_hm_new(ex, st, c): return Opaque('HashMap', ())


@model(r'^HashMap::<.*>::insert$', r'^HashMap::insert$')
def m_hm_insert(ex, st, c):
    hm = D(ex, st, c.args[0]); k = D(ex, st, c.args[1]); v = c.args[2]
    items = hm.data
    alts = []; none_cond = True
    for i, (k2, v2) in enumerate(items):
        same = simp_bool(values_eq(ex, st, k, k2))
        if same is False: continue
        cond = b_and(none_cond, same)
        new = items[:i] + ((k2, v),) + items[i + 1:]
        alts.append((cond, Some(v2), (c.args[0], Opaque('HashMap', new))))
        none_cond = b_and(none_cond, b_not(same))
        if same is True: break
    if none_cond is not False:
        alts.append((none_cond, NONE, (c.args[0], Opaque('HashMap', items + ((k, v),)))))
    return ForkStore(alts)


@model(r'^HashMap::<.*>::get$', r'^HashMap::get$', r'^HashMap::<.*>::contains_key$', r'^HashMap::contains_key$')
def m_hm_get(ex, st, c):
    hm = D(ex, st, c.args[0]); k = D(ex, st, c.args[1])
    ck = 'contains_key' in c.callee
    if isinstance(k, Int) and not k.conc and hm.data and all(isinstance(k2, Int) and k2.conc for k2, _ in hm.data):
        # symbolic scalar key against concrete keys: one found/not-found fork, the value is an if-then-else chain
        conds = [(k.v == bvval(k2.v, WIDTH[k.ty]), v2) for k2, v2 in hm.data]
        found = b_or(*[cnd for cnd, _ in conds])
        if ck: return found
        mv = merge_vals([(cnd, D(ex, st, v2)) for cnd, v2 in conds])
        if mv is not None:
            return Fork([(found, Some(mv)), (b_not(found), NONE)])
    alts = []; none_cond = True
    for (k2, v2) in hm.data:
        same = simp_bool(values_eq(ex, st, k, k2))
        if same is False: continue
        alts.append((b_and(none_cond, same), True if ck else Some(v2)))
        none_cond = b_and(none_cond, b_not(same))
        if same is True: break
    if none_cond is not False: alts.append((none_cond, False if ck else NONE))
    return Fork(alts)


@model(r'^HashMap::<.*>::len$', r'^HashMap::len$')
def m_hm_len(ex, st, c): return usize(len(D(ex, st, c.args[0]).data))


@model(r'^<HashMap<.*> as Clone>::clone$')
def m_hm_clone(ex, st, c): return D(ex, st, c.args[0])


@model(r'^HashMap::<.*>::iter$', r'^HashMap::iter$')
def m_hm_iter(ex, st, c): return Iter('vec', [Tup(kv) for kv in D(ex, st, c.args[0]).data])


@model(r"^<std::collections::hash_map::(Into)?Iter<.*> as Iterator>::next$")
def m_hm_iter_next(ex, st, c): return m_iter_next(ex, st, c)


def install_apply_hooks():
    """ForkStore / LazyR support in Executor.apply_result"""
    orig = Executor.apply_result

    def apply_result(s, st, fr, dest, ret_bb, res):
        if isinstance(res, _WithStore):
            if res.sr is not None:
                srs = res.sr if (res.sr and isinstance(res.sr[0], tuple)) else (res.sr,)
                for ref, val in srs: s.store(st, ref, val)
            return s.apply_result(st, fr, dest, ret_bb, res.v)
        if isinstance(res, _CapOblig):
            if res.over is not False: st.world['_cap_over'] = st.world.get('_cap_over', ()) + (res.over,)
            return s.apply_result(st, fr, dest, ret_bb, res.v)
        if isinstance(res, LazyR):
            th = res.thunk
            return s.apply_result(st, fr, dest, ret_bb, th(st) if th.__code__.co_argcount == 1 else th())
        return orig(s, st, fr, dest, ret_bb, res)
    Executor.apply_result = apply_result


install_apply_hooks()
