"""Symbolic executor for rustc MIR (see DESIGN.md 2.1).

State = stack of frames + path condition + a small immutable `world` dictionary owned by the environment models.
All values are immutable; shared references are represented by the value they point to (sound for safe Rust
without interior mutability, which is all the request path uses), mutable references are (frame, local, path)
pointers.  A terminal state carries an outcome: ('return', value) | ('panic', message, where) | ('stop', kind, info).
"""
import re, time, sys, os
import z3
from . import mir as M
from .sym import *


# ------------------------------------------------------------------ values
class Tup:
    __slots__ = ('items',)

    def __init__(s, items): s.items = tuple(items)

    def __repr__(s): return 'Tup%r' % (s.items,)


UNIT = Tup(())


class Struct:
    __slots__ = ('ty', 'fields')

    def __init__(s, ty, fields): s.ty = ty; s.fields = tuple(fields)

    def __repr__(s): return '%s%r' % (s.ty, s.fields)


class Enum:
    __slots__ = ('ty', 'variant', 'fields')

    def __init__(s, ty, variant, fields=()): s.ty = ty; s.variant = variant; s.fields = tuple(fields)

    def __repr__(s): return '%s::%s%r' % (s.ty, s.variant, s.fields)


def Some(v): return Enum('Option', 'Some', (v,))


NONE = Enum('Option', 'None', ())


def Ok(v): return Enum('Result', 'Ok', (v,))


def Err(v): return Enum('Result', 'Err', (v,))


class Vec:
    """Vec<T> / [T; N] / &[T] with a concrete number of elements"""
    __slots__ = ('items',)

    def __init__(s, items): s.items = tuple(items)

    def __repr__(s): return 'Vec%r' % (list(s.items),)


class MutRef:
    __slots__ = ('fid', 'local', 'path')

    def __init__(s, fid, local, path): s.fid = fid; s.local = local; s.path = tuple(path)

    def __repr__(s): return '&mut f%d.%s%r' % (s.fid, s.local, s.path)


class BoxPtr:
    """heap cell (only used by the vec![] lowering and Box::new)"""
    __slots__ = ('hid',)

    def __init__(s, hid): s.hid = hid


class Closure:
    __slots__ = ('name', 'caps')

    def __init__(s, name, caps): s.name = name; s.caps = tuple(caps)


class FnItem:
    __slots__ = ('name',)

    def __init__(s, name): s.name = name


class Opaque:
    """a value the models do not look into (io::Error, ParseIntError, Metadata, ...).  `tag` names it; `data` is model-owned."""
    __slots__ = ('tag', 'data')

    def __init__(s, tag, data=None): s.tag = tag; s.data = data

    def __repr__(s): return 'Opaque(%s)' % s.tag


class Iter:
    """iterator over a concrete-length sequence of already-computed items"""
    __slots__ = ('kind', 'items', 'pos', 'extra')

    def __init__(s, kind, items, pos=0, extra=None): s.kind = kind; s.items = tuple(items); s.pos = pos; s.extra = extra


class Uninit:
    def __repr__(s): return 'Uninit'


UNINIT = Uninit()

VARIANT_IDX = {'None': 0, 'Some': 1, 'Ok': 0, 'Err': 1, 'Less': -1, 'Equal': 0, 'Greater': 1, 'V4': 0, 'V6': 1,
               'Borrowed': 0, 'Owned': 1, 'NotPresent': 0, 'NotUnicode': 1, 'Start': 0, 'End': 1, 'Current': 2, 'Continue': 0, 'Break': 1}
VARIANT_BY_IDX = {('Option', 0): 'None', ('Option', 1): 'Some', ('Result', 0): 'Ok', ('Result', 1): 'Err', ('ControlFlow', 0): 'Continue', ('ControlFlow', 1): 'Break'}


class Unsupported(Exception):
    pass


class Stop(Exception):
    """raised by models to end the current path with a non-panic terminal kind"""

    def __init__(s, kind, info=None): s.kind = kind; s.info = info


class PanicExc(Exception):
    def __init__(s, msg): s.msg = msg


# results a model may return -------------------------------------------------
class Fork:
    """alternatives: list of (condition, result) ; result = value | Panic | StopR"""

    def __init__(s, alts): s.alts = alts


class Panic:
    def __init__(s, msg): s.msg = msg


class StopR:
    def __init__(s, kind, info=None): s.kind = kind; s.info = info


class CallFn:
    """ask the executor to run MIR function / closure `target` with args, then pass its return value to cont(ex, st, ret)
    (cont returns any model result again)"""

    def __init__(s, target, args, cont): s.target = target; s.args = args; s.cont = cont


# ------------------------------------------------------------------ frames / state
class Frame:
    __slots__ = ('fn', 'locals', 'bb', 'idx', 'dest', 'ret_bb', 'fid', 'cont', 'visits')

    def __init__(s, fn, fid, dest=None, ret_bb=None, cont=None):
        s.fn = fn; s.locals = {}; s.bb = 0; s.idx = 0; s.dest = dest; s.ret_bb = ret_bb; s.fid = fid; s.cont = cont
        s.visits = {}

    def clone(s):
        f = Frame.__new__(Frame)
        f.fn = s.fn; f.locals = dict(s.locals); f.bb = s.bb; f.idx = s.idx; f.dest = s.dest; f.ret_bb = s.ret_bb
        f.fid = s.fid; f.cont = s.cont; f.visits = dict(s.visits)
        return f


class State:
    __slots__ = ('frames', 'pc', 'world', 'heap', 'outcome', 'model', 'nfid', 'steps', 'trace', 'decisions')

    def __init__(s):
        s.frames = []; s.pc = []; s.world = {}; s.heap = {}; s.outcome = None; s.model = None; s.nfid = 0; s.steps = 0
        s.trace = (); s.decisions = 0

    def clone(s):
        n = State.__new__(State)
        n.frames = [f.clone() for f in s.frames]; n.pc = list(s.pc); n.world = dict(s.world); n.heap = dict(s.heap)
        n.outcome = s.outcome; n.model = s.model; n.nfid = s.nfid; n.steps = s.steps; n.trace = s.trace
        n.decisions = s.decisions
        return n

    def frame_by_id(s, fid):
        for f in reversed(s.frames):
            if f.fid == fid: return f
        raise Unsupported('dangling &mut (frame %d gone)' % fid)

    def where(s):
        out = []
        for f in s.frames[-4:]:
            out.append('%s@bb%d' % (short_name(f.fn.name), f.bb))
        return ' > '.join(out)

    def log(s, ev):
        s.trace = s.trace + (ev,)


def short_name(n):
    n = re.sub(r'<impl at ([^>]*?/)?(\w+/mod|\w+)\.rs:(\d+):[^>]*>', r'<\2:\3>', n)
    return n


# ------------------------------------------------------------------ the executor
class Executor:
    def __init__(s, prog, models, max_block_visits=64, max_frames=60, solver_timeout_ms=300000, max_paths=200000,
                 max_steps=2_000_000):
        s.prog = prog; s.models = models; s.max_block_visits = max_block_visits; s.max_frames = max_frames
        s.max_paths = max_paths; s.max_steps = max_steps
        s.solver_timeout_ms = solver_timeout_ms
        s.stats = {'queries': 0, 'sat': 0, 'unsat': 0, 'unknown': 0, 'solver_s': 0.0, 'model_hits': 0, 'steps': 0,
                   'forks': 0, 'paths': 0, 'calls_mir': 0, 'calls_model': 0}
        s.used_fns = set(); s.used_models = set()
        s.const_cache = {}
        s.model_cache = {}
        s.fresh_n = 0
        s.trace_on = os.environ.get('MIRSE_TRACE') == '1'
        s.concrete_messages = False; s.dec_digits = 6; s.allow_non_ascii = False
        s.slow_query_s = float(os.environ.get('MIRSE_SLOW', '5')); s.cur_where = ''
        s.merge_fns = []; s.blind = False; s.havoc_fns = []; s.memo_fns = []
        s.fork_sites = {} if os.environ.get('MIRSE_FORK_SITES') else None
        s.block_hook = None; s.drop_hook = None; s.move_hook = None
        s.str_cap = 40
        s.where_log = os.environ.get('MIRSE_WHERE')
        s._stack = []

    # ---- solver
    def fresh(s, prefix):
        s.fresh_n += 1
        return '%s!%d' % (prefix, s.fresh_n)

    def check(s, pc, extra=None, want_model=True):
        """-> (status, model) ; status in 'sat','unsat','unknown'.  One fresh (non-incremental) QF_BV solver per query:
        measured much faster here than push/pop on a long-lived solver, which switches z3 to its incremental core."""
        t = time.time()
        sol = z3.SolverFor('QF_BV'); sol.set('timeout', s.solver_timeout_ms)
        for c in pc:
            if c is not True: sol.add(zb(c))
        if extra is not None: sol.add(zb(extra))
        if s.where_log:
            sys.stderr.write('[mirse] query pc=%d at %s\n' % (len(pc), s.cur_where))
            if s.where_log != '1': open(s.where_log, 'w').write(sol.to_smt2())
        r = sol.check()
        m = sol.model() if (r == z3.sat and want_model) else None
        dt = time.time() - t
        if dt > s.slow_query_s:
            sys.stderr.write('[mirse] slow query %.1fs result=%s pc=%d conjuncts at %s\n' % (dt, r, len(pc), s.cur_where))
            if os.environ.get('MIRSE_DUMP_SLOW'):
                open(os.environ['MIRSE_DUMP_SLOW'], 'w').write(sol.to_smt2())
                sz = sorted(((len(zb(c).sexpr()), i) for i, c in enumerate(pc) if c is not True), reverse=True)[:8]
                sys.stderr.write('   biggest conjuncts (chars, index): %r ; extra=%d\n' % (sz, len(zb(extra).sexpr()) if extra is not None else 0))
                raise SystemExit(3)
        s.stats['queries'] += 1; s.stats['solver_s'] += dt
        kk = 'sat' if r == z3.sat else 'unsat' if r == z3.unsat else 'unknown'
        s.stats[kk] += 1
        return kk, m

    def feasible(s, st, cond):
        """is pc ∧ cond satisfiable?  returns (True|False|None, model).  Uses the state's cached model first."""
        if cond is True: return True, st.model
        if cond is False: return False, None
        if s.blind: return True, None
        s.cur_where = st.where()
        if st.model is not None:
            try:
                v = st.model.eval(cond, model_completion=True)
                if z3.is_true(v):
                    s.stats['model_hits'] += 1
                    return True, st.model
            except z3.Z3Exception:
                pass
        r, m = s.check(st.pc, cond)
        if r == 'sat': return True, m
        if r == 'unsat': return False, None
        return None, None

    # ---- const evaluation (const items / promoteds are ordinary MIR bodies with no arguments)
    def eval_const_item(s, name, crate=None):
        if (crate, name) in s.const_cache: return s.const_cache[(crate, name)]
        fn = s.prog.get(name, crate)
        if fn is None: raise Unsupported('unknown const item ' + name)
        st = State()
        saved = dict(s.stats)
        outs = s.run_fn(fn, [], st, collect_all=True)
        s.stats.update(saved)
        if len(outs) != 1 or outs[0].outcome[0] != 'return':
            raise Unsupported('const item %s did not evaluate to one value' % name)
        v = outs[0].outcome[1]
        s.const_cache[(crate, name)] = v
        return v

    def const(s, txt, fr):
        c = txt
        ch = c[0]
        if ch == '"':
            return SymStr.const(M.unescape(c[1:c.rindex('"')]))
        if ch == 'b' and c[1:2] == '"':
            return SymStr.const(M.unescape(c[2:c.rindex('"')]))
        if c == 'true': return True
        if c == 'false': return False
        if c == '()': return UNIT
        m = re.match(r'^(-?\d+)_(u8|u16|u32|u64|u128|usize|i8|i16|i32|i64|i128|isize)$', c)
        if m: return Int(m.group(2), int(m.group(1)))
        if ch == "'":
            body = c[1:-1]
            b = M.unescape(body).decode('utf-8') if body != '"' else '"'
            return Int('char', ord(b))
        if ch == 'b' and c[1:2] == "'":
            return Int('u8', M.unescape(c[2:-1])[0])
        mm = re.match(r'^(?:core::|std::)?(u8|u16|u32|u64|u128|usize|i8|i16|i32|i64|i128|isize)::(MIN|MAX|BITS)$', c)
        if mm:
            ty = mm.group(1); bits = {'usize': 64, 'isize': 64}.get(ty) or int(ty[1:])
            if mm.group(2) == 'BITS': return Int('u32', bits)
            if ty[0] == 'u': return Int(ty, 0 if mm.group(2) == 'MIN' else (1 << bits) - 1)
            return Int(ty, -(1 << (bits - 1)) if mm.group(2) == 'MIN' else (1 << (bits - 1)) - 1)
        if c.startswith('ZeroSized: '):
            t = c[11:]
            if t.startswith('{closure@'): return Closure(t, ())
            return FnItem(t)
        m = re.match(r'^(.*) \{\{\s*\}\}$', c)   # unit struct constant: `null::Null {{  }}`
        if m: return Struct(m.group(1), ())
        # const item / promoted / fn item
        name = c; cr = fr.fn.crate
        if ': ' in name and ' = ' in name: name = name[:name.index(': ')]
        if name.endswith(']') and '::promoted[' in name:
            if s.prog.get(name, cr) is None:
                # promoted of the current function: printed with the user-facing path; resolve relative to fr.fn
                k = name.index('::promoted[')
                cand = fr.fn.name + name[k:]
                if s.prog.get(cand, cr) is not None: name = cand
        f = s.prog.get(name, cr)
        if f is None and '<' not in name:
            # module-level consts are defined without their module path (`const METHOD`) but referenced with it
            segs = name.split('::')
            for k in range(1, len(segs)):
                f = s.prog.get('::'.join(segs[k:]), cr)
                if f is not None and f.is_const:
                    name = '::'.join(segs[k:]); break
                f = None
        if f is not None and f.is_const: return s.eval_const_item(name, f.crate)
        if f is not None: return FnItem(name)
        # generic-stripped lookup (e.g. `foo::<T>`)
        base = re.sub(r'::<.*>$', '', name)
        f = s.prog.get(base, cr)
        if f is not None: return s.eval_const_item(base, f.crate) if f.is_const else FnItem(base)
        if re.match(r'^[\w:<>&\', \[\]\(\)]+$', name): return FnItem(name)
        if getattr(s, 'shared_static_stop', False) and re.match(r'^\{alloc\d+: &', c) and re.search(r'(Mutex|RwLock|Atomic[A-Z]\w*|Cell|OnceLock|LazyLock|LocalKey)\b', c):
            # opt-in (C08): a reference to a static with interior mutability is itself a touch of process-wide mutable state
            raise Stop('shared-state', 'static %s at %s' % (c[:100], short_name(fr.fn.name)))
        raise Unsupported('const ' + c)

    # ---- places
    def read_local(s, st, fr, local):
        try:
            return fr.locals[local]
        except KeyError:
            # zero-sized values are never initialised by a MIR statement: a closure that captures nothing, the unit value
            ty = fr.fn.locals.get(local) if isinstance(fr.fn.locals, dict) else None
            if isinstance(ty, str):
                if ty.startswith('{closure@'): return Closure(ty, ())
                if ty == '()': return UNIT
                if re.match(r'^(std::|core::)?(sync::(mpsc|mpmc)::)?(RecvError|TryRecvError)$|^(std|core)::fmt::Error$|PhantomData<|^(std::ops::)?RangeFull$|^(std::alloc::)?Global$', ty):
                    return Opaque(ty.split('::')[-1])
            raise Unsupported('read of unassigned %s in %s' % (local, fr.fn.name))

    def project(s, st, v, p, fr):
        k = p[0]
        if k == 'd':
            if isinstance(v, MutRef):
                f2 = st.frame_by_id(v.fid)
                return s.project_path(st, f2.locals[v.local], v.path, f2)
            if isinstance(v, BoxPtr): return st.heap[v.hid]
            return v
        if k == 'f':
            if isinstance(v, (Struct, Enum)):
                try: return v.fields[p[1]]
                except IndexError: raise Unsupported('field %d of %r' % (p[1], v))
            if isinstance(v, Tup): return v.items[p[1]]
            if isinstance(v, BoxPtr): return v       # Box.0 / Unique.0 / NonNull.0 are transparent
            if isinstance(v, Closure): return v.caps[p[1]]
            if p[2] and M.WRAPPER_RE.match(p[2]): return v
            if isinstance(v, Uninit): return v
            if len(p) > 2 and p[2] and (p[2].startswith('[') or 'MaybeDangling' in p[2]): return v
            raise Unsupported('field %r of %r' % (p, v))
        if k == 'dc': return v
        if k == 'ci':
            items = v.items if isinstance(v, Vec) else None
            if items is None and isinstance(v, SymStr):
                f = v.flat(); idx = (f.ln - p[1]) if p[2] else p[1]
                return Int('u8', f.bs[idx])
            return items[-p[1]] if p[2] else items[p[1]]
        if k == 'i':
            idx = fr.locals[p[1]]
            return s.index_value(st, v, idx)
        raise Unsupported('projection %r' % (p,))

    def index_value(s, st, v, idx):
        if isinstance(v, Vec):
            if idx.conc: return v.items[idx.v]
            raise Unsupported('symbolic index into Vec')
        if isinstance(v, SymStr):
            return Int('u8', v.byte_at(idx.v if idx.conc else idx.v))
        raise Unsupported('index into %r' % (v,))

    def project_path(s, st, v, path, fr):
        for p in path: v = s.project(st, v, p, fr)
        return v

    def read_place(s, st, fr, place):
        local, proj = place
        v = s.read_local(st, fr, local)
        for p in proj: v = s.project(st, v, p, fr)
        return v

    def update(s, st, v, path, val, fr):
        """functional update of v along path; returns new v"""
        if not path: return val
        p = path[0]; k = p[0]
        if k == 'd':
            if isinstance(v, MutRef):
                f2 = st.frame_by_id(v.fid)
                f2.locals[v.local] = s.update(st, f2.locals[v.local], v.path + tuple(path[1:]), val, f2)
                return v
            if isinstance(v, BoxPtr):
                st.heap[v.hid] = s.update(st, st.heap.get(v.hid, UNINIT), path[1:], val, fr)
                return v
            return s.update(st, v, path[1:], val, fr)
        if k == 'f':
            if isinstance(v, Struct):
                fs = list(v.fields); fs[p[1]] = s.update(st, fs[p[1]], path[1:], val, fr); return Struct(v.ty, fs)
            if isinstance(v, Enum):
                fs = list(v.fields); fs[p[1]] = s.update(st, fs[p[1]], path[1:], val, fr); return Enum(v.ty, v.variant, fs)
            if isinstance(v, Tup):
                fs = list(v.items)
                while len(fs) <= p[1]: fs.append(UNINIT)
                fs[p[1]] = s.update(st, fs[p[1]], path[1:], val, fr); return Tup(fs)
            if isinstance(v, Uninit):
                if p[2] and (M.WRAPPER_RE.match(p[2]) or p[2].startswith('[')):
                    return s.update(st, v, path[1:], val, fr)
                # building a tuple/struct field by field
                fs = [UNINIT] * (p[1] + 1); fs[p[1]] = s.update(st, UNINIT, path[1:], val, fr); return Tup(fs)
            if isinstance(v, BoxPtr): return s.update(st, v, path[1:], val, fr)
            raise Unsupported('update field of %r' % (v,))
        if k == 'dc': return s.update(st, v, path[1:], val, fr)
        if k == 'i' or k == 'ci':
            if k == 'i':
                idx = fr.locals[p[1]]
                if not idx.conc: raise Unsupported('symbolic index write')
                i = idx.v
            else:
                i = p[1]
            if isinstance(v, Vec):
                fs = list(v.items); fs[i] = s.update(st, fs[i], path[1:], val, fr); return Vec(fs)
            if isinstance(v, SymStr):
                f = v.flat(); bs = list(f.bs); bs[i] = val.v; return SymStr((Atom(f.ln, bs, f.minlen),))
        raise Unsupported('update %r' % (p,))

    def write_place(s, st, fr, place, val):
        local, proj = place
        if not proj:
            fr.locals[local] = val; return
        base = fr.locals.get(local, UNINIT)
        fr.locals[local] = s.update(st, base, proj, val, fr)

    def make_ref(s, st, fr, place, mut):
        local, proj = place
        if not mut:
            return s.read_place(st, fr, place)
        # &mut: pointer.  Reborrow through an existing &mut composes paths.
        v = fr.locals.get(local, UNINIT)
        path = []
        base_f = fr; base_local = local
        for i, p in enumerate(proj):
            if p[0] == 'd' and isinstance(v, MutRef):
                base_f = st.frame_by_id(v.fid); base_local = v.local; path = list(v.path)
                v = s.project_path(st, base_f.locals[v.local], v.path, base_f)
                continue
            if p[0] == 'd' and isinstance(v, BoxPtr):
                raise Unsupported('&mut into Box')
            if p[0] == 'i':
                idx = fr.locals[p[1]]
                if not idx.conc: raise Unsupported('symbolic index in &mut')
                p = ('ci', idx.v, False)
            path.append(p)
            v = s.project(st, v, p, fr)
        return MutRef(base_f.fid, base_local, path)

    def deref(s, st, v):
        """follow &mut pointers to the value"""
        while isinstance(v, MutRef):
            f2 = st.frame_by_id(v.fid)
            v = s.project_path(st, f2.locals[v.local], v.path, f2)
        return v

    def store(s, st, ref, val):
        """write through a &mut"""
        if not isinstance(ref, MutRef): raise Unsupported('store through non-&mut %r' % (ref,))
        f2 = st.frame_by_id(ref.fid)
        f2.locals[ref.local] = s.update(st, f2.locals.get(ref.local, UNINIT), ref.path, val, f2)

    # ---- operands / rvalues
    def operand(s, st, fr, op):
        k = op[0]
        if k == 'copy' or k == 'move': return s.read_place(st, fr, op[1])
        if k == 'const': return s.const(op[1], fr)
        raise Unsupported('operand %r' % (op,))

    def rvalue(s, st, fr, rv, dest_ty=None):
        k = rv[0]
        if k == 'use': return s.operand(st, fr, rv[1])
        if k == 'ref': return s.make_ref(st, fr, rv[2], rv[1])
        if k == 'rawptr':
            v = s.read_place(st, fr, rv[2])
            return v
        if k == 'bin':
            a = s.operand(st, fr, rv[2]); b = s.operand(st, fr, rv[3]); op = rv[1]
            a = s.deref(st, a); b = s.deref(st, b)
            if isinstance(a, Int) and isinstance(b, Int):
                r = int_binop(op, a, b)
                if isinstance(r, tuple): return Tup(r)
                return r
            if isinstance(a, bool) or (not isinstance(a, (Int, SymStr, Struct, Enum, Tup, Vec)) and z3.is_bool(a)):
                if op == 'Eq': return b_eq(a, b)
                if op == 'Ne': return b_not(b_eq(a, b))
                if op == 'BitAnd': return b_and(a, b)
                if op == 'BitOr': return b_or(a, b)
                if op == 'BitXor': return b_not(b_eq(a, b))
            raise Unsupported('binop %s on %r, %r' % (op, a, b))
        if k == 'un':
            a = s.deref(st, s.operand(st, fr, rv[2]))
            if rv[1] == 'Not':
                if isinstance(a, Int): return Int(a.ty, (~a.v) if a.conc else ~a.v)
                return b_not(a)
            if rv[1] == 'Neg':
                return Int(a.ty, (-a.v) if a.conc else -a.v)
            if rv[1] == 'PtrMetadata':
                if isinstance(a, SymStr): return Int('usize', a.length())
                if isinstance(a, Vec): return Int('usize', len(a.items))
            raise Unsupported('unop %r' % (rv,))
        if k == 'cast':
            a = s.operand(st, fr, rv[1]); ty = rv[2]; kind = rv[3]
            if kind == 'IntToInt':
                if isinstance(a, bool) or (not isinstance(a, Int) and z3.is_bool(a)):
                    return Int(ty, ite_bv(a, 1, 0, WIDTH[ty])) if not isinstance(a, bool) else Int(ty, int(a))
                return int_cast(a, ty)
            if kind in ('PointerCoercion', 'Transmute', 'PtrToPtr', 'Subtype', 'PointerExposeProvenance'):
                return a
            raise Unsupported('cast %r' % (rv,))
        if k == 'discr':
            v = s.read_place(st, fr, rv[1])
            if isinstance(v, Enum):
                ty = 'isize'
                ue = getattr(s.prog, 'user_enums', None)
                if ue and v.ty in ue and v.variant in ue[v.ty]: return Int(ty, ue[v.ty].index(v.variant))
                return Int(ty, VARIANT_IDX[v.variant])
            raise Unsupported('discriminant of %r' % (v,))
        if k == 'len':
            v = s.read_place(st, fr, rv[1])
            if isinstance(v, SymStr): return Int('usize', v.length())
            if isinstance(v, Vec): return Int('usize', len(v.items))
            raise Unsupported('Len of %r' % (v,))
        if k == 'tuple': return Tup([s.operand(st, fr, o) for o in rv[1]])
        if k == 'array':
            items = [s.operand(st, fr, o) for o in rv[1]]
            if items and all(isinstance(i, Int) and i.ty == 'u8' for i in items):
                return SymStr.from_bytes_list([i.v for i in items])      # byte arrays are byte strings everywhere
            return Vec(items)
        if k == 'repeat':
            v = s.operand(st, fr, rv[1]); n = rv[2]
            m = re.match(r'^(?:const )?(\d+)(?:_usize)?$', n)
            if not m: raise Unsupported('repeat count ' + n)
            n = int(m.group(1))
            if isinstance(v, Int) and v.ty == 'u8': return SymStr.from_bytes_list([v.v] * n)
            return Vec([v] * n)
        if k == 'adt':
            name = rv[1]; ops = [s.operand(st, fr, o) for o in rv[3]]
            # Option::<T>::Some / Result::<T,E>::Ok / user struct
            m = re.match(r'^(?:.*::)?(Option|Result)::<.*>::(Some|None|Ok|Err)$', name) or re.match(r'^(?:.*::)?(Option|Result)::(Some|None|Ok|Err)$', name)
            if m: return Enum(m.group(1), m.group(2), ops)
            m = re.match(r'^(.*)::(\w+)$', name)
            base = re.sub(r'::<.*?>$', '', name)
            if rv[4] is None and m and m.group(2) in VARIANT_IDX and not rv[4]:
                return Enum(re.sub(r'::<.*>', '', m.group(1)).split('::')[-1], m.group(2), ops)
            if rv[4] is None and name in ('Start', 'End', 'Current'): return Enum('SeekFrom', name, ops)
            ue = getattr(s.prog, 'user_enums', None)
            if ue and m:
                en = re.sub(r'::<.*>', '', m.group(1)).split('::')[-1]
                if en in ue and m.group(2) in ue[en]:
                    return Enum(en, m.group(2), ops)
            return Struct(strip_generics(name), ops)
        if k == 'closure':
            return Closure(rv[1], [s.operand(st, fr, o) for o in rv[2]])
        raise Unsupported('rvalue %r' % (rv,))

    # ---- running
    def new_frame(s, st, fn, args, dest, ret_bb, cont=None):
        if len(st.frames) >= s.max_frames:
            raise Stop('bound:frames', fn.name)
        st.nfid += 1
        nf = Frame(fn, st.nfid, dest, ret_bb, cont)
        if len(args) != len(fn.params):
            # closures: (self, (args tuple)) calling convention "rust-call" is already untupled in MIR bodies
            raise Unsupported('arity mismatch calling %s: %d vs %d' % (fn.name, len(args), len(fn.params)))
        for (p, _), a in zip(fn.params, args): nf.locals[p] = a
        st.frames.append(nf)
        s.used_fns.add(fn.name)
        s.stats['calls_mir'] += 1
        return nf

    def run_fn(s, fn, args, st=None, collect_all=False, on_terminal=None):
        """explore all paths of fn(args) from state st (fresh if None); returns list of terminal states"""
        if isinstance(fn, str):
            f = s.prog.get(fn)
            if f is None: raise Unsupported('no MIR for ' + fn)
            fn = f
        st = st or State()
        s.new_frame(st, fn, list(args), None, None)
        return s.explore(st, on_terminal)

    def explore(s, st, on_terminal=None):
        work = [st]; done = []
        while work:
            cur = work.pop()
            try:
                succ = s.step(cur)
            except PanicExc as e:
                cur.outcome = ('panic', e.msg, cur.where()); succ = [cur]
            except Stop as e:
                cur.outcome = ('stop', e.kind, e.info if e.info is not None else cur.where()); succ = [cur]
            for n in succ:
                if n.outcome is not None and n.world.get('_cap_over') and n.outcome[0] in ('return', 'merge-return') and not s.blind:
                    # string-capacity assumptions made along this path: they must be unsatisfiable together with the path condition
                    ov = b_or(*n.world['_cap_over'])
                    r_, _m = s.check(n.pc, ov, want_model=False)
                    if r_ == 'sat': n.outcome = ('stop', 'bound:strcap', 'a string outgrew the capacity bound on this path')
                    elif r_ == 'unknown': n.outcome = ('stop', 'solver-unknown', 'string capacity obligation')
                    else: n.pc.append(b_not(ov))
                    n.world['_cap_over'] = ()
                if n.outcome is not None:
                    s.stats['paths'] += 1
                    if on_terminal is not None:
                        on_terminal(n)
                    else:
                        done.append(n)
                    if s.stats['paths'] > s.max_paths: raise Unsupported('path bound exceeded (%d)' % s.max_paths)
                else:
                    work.append(n)
        return done

    def finish_call(s, st, fr, dest, ret_bb, val):
        """store a call result and move to the return block"""
        if ret_bb is None:
            raise PanicExc('diverging call returned')
        if dest is not None: s.write_place(st, fr, dest, val)
        fr.bb = ret_bb; fr.idx = 0

    def apply_result(s, st, fr, dest, ret_bb, res):
        """handle a model result for the call in frame fr; returns list of successor states (st reused when unique)"""
        if isinstance(res, Fork):
            outs = []
            alts = [(simp_bool(c), r) for c, r in res.alts]
            alts = [(c, r) for c, r in alts if c is not False]
            if len(alts) > 1:
                s.stats['forks'] += 1
                if s.fork_sites is not None:
                    k = '%s@bb%d' % (short_name(fr.fn.name)[-50:], fr.bb); s.fork_sites[k] = s.fork_sites.get(k, 0) + 1
            for i, (c, r) in enumerate(alts):
                ok, mdl = s.feasible(st, c)
                if ok is False: continue
                n = st.clone() if i < len(alts) - 1 else st
                if ok is None:
                    n.outcome = ('stop', 'solver-unknown', n.where()); outs.append(n); continue
                if c is not True: n.pc.append(c)
                n.model = mdl; n.decisions += 1
                nfr = n.frames[-1]
                outs.extend(s.apply_result(n, nfr, dest, ret_bb, r))
            return outs
        if isinstance(res, Panic):
            st.outcome = ('panic', res.msg, st.where()); return [st]
        if isinstance(res, StopR):
            st.outcome = ('stop', res.kind, res.info if res.info is not None else st.where()); return [st]
        if isinstance(res, CallFn):
            tgt = res.target
            if isinstance(tgt, Closure):
                fn = s.prog.get(tgt.name)
                if fn is None: raise Unsupported('no MIR for closure ' + tgt.name)
                args = [tgt] + list(res.args)
            elif isinstance(tgt, FnItem):
                fn = s.resolve(tgt.name)
                if fn is None:
                    # model-backed function item
                    mdl = s.find_model(tgt.name)
                    if mdl is None: raise Unsupported('no MIR/model for fn item ' + tgt.name)
                    r2 = mdl(s, st, Call(tgt.name, list(res.args), None, fr))
                    if isinstance(r2, (Fork, CallFn)): raise Unsupported('nested fork in fn item')
                    return s.apply_result(st, fr, dest, ret_bb, res.cont(s, st, r2))
                args = list(res.args)
            else:
                fn = tgt if isinstance(tgt, M.Fn) else s.resolve(tgt)
                if fn is None: raise Unsupported('no MIR for ' + str(tgt))
                args = list(res.args)
            s.new_frame(st, fn, args, dest, ret_bb, res.cont)
            return [st]
        s.finish_call(st, fr, dest, ret_bb, res)
        return [st]

    def run_merged(s, st, fn, args):
        """function summarisation: explore fn(args) without feasibility queries, then merge the returned values into one
        if-then-else value.  Only for functions without side effects (no &mut arguments, world unchanged); returns a model
        result (value | Fork) or None when merging is not possible (caller then executes the function normally)."""
        for a in args:
            if isinstance(a, MutRef): return None
        sub = st.clone()
        base_pc = len(sub.pc); depth = len(sub.frames)
        sub.world['_in_merge'] = True
        sub.world['_merge_depth'] = depth
        s.new_frame(sub, fn, list(args), None, None)
        sub.frames[-1].cont = _MERGE_RETURN
        was_blind = s.blind; s.blind = True
        saved_paths = s.stats['paths']
        try:
            outs = s.explore(sub)
        except Unsupported:
            s.blind = was_blind; raise
        finally:
            s.blind = was_blind
        s.stats['paths'] = saved_paths
        s.stats['merged_calls'] = s.stats.get('merged_calls', 0) + 1
        w0 = {k: v for k, v in st.world.items() if not k.startswith('_')}
        rets = []; others = []
        for o in outs:
            cond = b_and(*o.pc[base_pc:])
            w1 = {k: v for k, v in o.world.items() if not k.startswith('_')}
            if o.outcome[0] == 'merge-return':
                if any(w1.get(k) is not w0.get(k) for k in set(w0) | set(w1)): return None
                rets.append((cond, o.outcome[1]))
            elif o.outcome[0] == 'panic':
                others.append((cond, Panic(o.outcome[1])))
            else:
                others.append((cond, StopR(o.outcome[1], o.outcome[2])))
        merged = merge_vals(rets) if rets else None
        alts = list(others)
        if rets and merged is None:
            # results of different enum variants (Ok / Err, Some / None): one merged value per variant, forked by variant
            if not all(isinstance(v, Enum) for _, v in rets): return None
            groups = {}
            for c, v in rets: groups.setdefault((v.variant, len(v.fields)), []).append((c, v))
            for g in groups.values():
                mg = merge_vals(g)
                if mg is None: return None
                alts.append((b_or(*[c for c, _ in g]), mg))
            return Fork(alts)
        if rets: alts.append((b_or(*[c for c, _ in rets]), merged))
        if len(alts) == 1 and not others: return merged
        return Fork(alts)

    def resolve(s, callee, crate=None):
        f = s.prog.get(callee, crate)
        if f is not None: return f
        base = strip_generics(callee)
        f = s.prog.get(base, crate)
        if f is not None: return f
        # calls into a dependency are printed with the crate name (`file_ext::FileExt::read_file`)
        if not base.startswith('<'):
            segs = base.split('::')
            for k in range(1, len(segs) - 1):
                f = s.prog.get('::'.join(segs[k:]), crate)
                if f is not None and not f.is_const: return f
        return None

    def find_model(s, callee):
        m = s.model_cache.get(callee, 0)
        if m != 0: return m
        base = strip_generics(callee)
        for pat, fn in s.models:
            if pat.search(callee) or pat.search(base):
                s.model_cache[callee] = fn
                return fn
        s.model_cache[callee] = None
        return None

    def step(s, st):
        """run st until it forks or terminates; returns successor states"""
        while True:
            fr = st.frames[-1]
            blk = fr.fn.blocks[fr.bb]
            if fr.idx == 0 and s.block_hook is not None:
                r_ = s.block_hook(st, fr)
                if r_ is not None: return r_
            if fr.idx == 0:
                c = fr.visits.get(fr.bb, 0) + 1
                fr.visits[fr.bb] = c
                if c > s.max_block_visits:
                    raise Stop('bound:unroll', '%s bb%d visited %d times' % (short_name(fr.fn.name), fr.bb, c))
            stt = blk[fr.idx]
            st.steps += 1; s.stats['steps'] += 1
            if st.steps > s.max_steps: raise Stop('bound:steps', st.where())
            k = stt[0]
            if s.trace_on: sys.stderr.write('%s bb%d.%d %r\n' % (short_name(fr.fn.name)[-40:], fr.bb, fr.idx, stt[:3]))
            if k == 'assign':
                dest_ty = fr.fn.locals.get(stt[1][0]) if not stt[1][1] else None
                s.write_place(st, fr, stt[1], s.rvalue(st, fr, stt[2], dest_ty))
                if s.move_hook is not None and stt[2][0] == 'use' and stt[2][1][0] == 'move': s.move_hook(st, fr, stt[2][1][1])
                fr.idx += 1; continue
            if k == 'nop':
                fr.idx += 1; continue
            if k == 'goto':
                fr.bb = stt[1]; fr.idx = 0; continue
            if k == 'drop':
                if s.drop_hook is not None: s.drop_hook(st, fr, stt[1])
                fr.bb = stt[2]; fr.idx = 0; continue
            if k == 'return':
                rv = fr.locals.get('_0', UNIT)
                st.frames.pop()
                if fr.cont is _MERGE_RETURN:
                    st.outcome = ('merge-return', rv); return [st]
                if fr.cont is not None:
                    caller = st.frames[-1]
                    res = fr.cont(s, st, rv)
                    outs = s.apply_result(st, caller, fr.dest, fr.ret_bb, res)
                    if len(outs) == 1 and outs[0] is st and st.outcome is None: continue
                    return outs
                if not st.frames:
                    st.outcome = ('return', rv); return [st]
                caller = st.frames[-1]
                s.finish_call(st, caller, fr.dest, fr.ret_bb, rv)
                continue
            if k == 'switch':
                v = s.deref(st, s.operand(st, fr, stt[1]))
                return_states = s.do_switch(st, fr, v, stt[2], stt[3])
                if return_states is None: continue
                return return_states
            if k == 'call':
                outs = s.do_call(st, fr, stt)
                if outs is None: continue
                if len(outs) == 1 and outs[0] is st and st.outcome is None: continue
                return outs
            if k == 'assert':
                c = s.deref(st, s.operand(st, fr, stt[2]))
                if isinstance(c, Int): c = (c.v != 0) if c.conc else (c.v != 0)
                if stt[1]: c = b_not(c)
                c = simp_bool(c)
                if c is True:
                    fr.bb = stt[4]; fr.idx = 0; continue
                msg = 'assert failed: ' + stt[3][:80]
                if c is False: raise PanicExc(msg)
                res = Fork([(c, None), (b_not(c), Panic(msg))])
                outs = s.apply_result(st, fr, None, stt[4], res)
                if len(outs) == 1 and outs[0] is st and st.outcome is None: continue
                return outs
            if k == 'setdiscr':
                v = s.read_place(st, fr, stt[1])
                if isinstance(v, Enum):
                    name = VARIANT_BY_IDX.get((v.ty, stt[2]))
                    if name is None: raise Unsupported('setdiscr on ' + v.ty)
                    s.write_place(st, fr, stt[1], Enum(v.ty, name, v.fields if name == v.variant else ()))
                else:
                    raise Unsupported('setdiscr on %r' % (v,))
                fr.idx += 1; continue
            if k == 'unreachable': raise PanicExc('unreachable executed')
            if k == 'resume' or k == 'cleanup_stmt': raise Unsupported('cleanup block reached in ' + fr.fn.name)
            if k == 'unparsed': raise Unsupported('unparsed MIR statement: %s (%s)' % (stt[1][:200], stt[2]))
            raise Unsupported('statement kind ' + k)

    def do_switch(s, st, fr, v, targets, other):
        if isinstance(v, bool): v = Int('u8', int(v))
        elif not isinstance(v, Int):
            if z3.is_bool(v):
                # boolean switch: [0: bbF, otherwise: bbT]
                v = simp_bool(v)
                if isinstance(v, bool): v = Int('u8', int(v))
            else:
                raise Unsupported('switch on %r' % (v,))
        if isinstance(v, Int):
            if not v.conc:
                sv = simp_bv(v.v)
                v = Int(v.ty, sv)
        if isinstance(v, Int) and v.conc:
            val = v.v
            w = WIDTH[v.ty]
            for kk, b in targets:
                if (kk & ((1 << w) - 1)) == val:
                    fr.bb = b; fr.idx = 0; return None
            if other is None: raise PanicExc('switch without matching target')
            fr.bb = other; fr.idx = 0; return None
        # symbolic
        alts = []
        if isinstance(v, Int):
            w = WIDTH[v.ty]
            conds = [v.v == bvval(kk & ((1 << w) - 1), w) for kk, _ in targets]
        else:
            # z3 Bool: targets are 0 / otherwise (or 0 and 1)
            conds = []
            for kk, _ in targets:
                conds.append(b_not(v) if kk == 0 else v)
        for (kk, b), c in zip(targets, conds): alts.append((c, b))
        if other is not None:
            alts.append((b_and(*[b_not(c) for c in conds]), other))
        s.stats['forks'] += 1
        if s.fork_sites is not None:
            k = '%s@bb%d' % (short_name(fr.fn.name)[-50:], fr.bb); s.fork_sites[k] = s.fork_sites.get(k, 0) + 1
        outs = []
        live = []
        for c, b in alts:
            c = simp_bool(c)
            if c is False: continue
            live.append((c, b))
        for i, (c, b) in enumerate(live):
            ok, mdl = s.feasible(st, c)
            if ok is False: continue
            n = st.clone() if i < len(live) - 1 else st
            if ok is None:
                n.outcome = ('stop', 'solver-unknown', n.where()); outs.append(n); continue
            if c is not True: n.pc.append(c)
            n.model = mdl; n.decisions += 1
            nf = n.frames[-1]; nf.bb = b; nf.idx = 0
            outs.append(n)
        return outs

    def do_call(s, st, fr, stt):
        _, dest, callee, argops, ret_bb = stt
        args = [s.operand(st, fr, a) for a in argops]
        if isinstance(callee, tuple):
            tgt = s.operand(st, fr, callee[1])
            if isinstance(tgt, (Closure, FnItem)):
                return s.apply_result(st, fr, dest, ret_bb, CallFn(tgt, args, lambda ex, st_, r: r))
            raise Unsupported('indirect call through %r' % (tgt,))
        # 1. explicit model overrides MIR (environment functions have bodies in dependencies we do not want to run)
        mdl = s.find_model(callee)
        if mdl is None:
            fn = s.resolve(callee, fr.fn.crate)
            if fn is not None:
                if s.merge_fns and not st.world.get('_in_merge') and any(p.search(fn.name) or p.search(callee) for p in s.merge_fns):
                    res = s.run_merged(st, fn, args)
                    if res is not None:
                        return s.apply_result(st, fr, dest, ret_bb, res)
                if s.havoc_fns:
                    for p, builder in s.havoc_fns:
                        if p.search(fn.name) or p.search(callee):
                            key = ('havoc', fn.name, tuple(val_key(s.deref(st, a)) for a in args))
                            memo = st.world.get('_memo', {})
                            if key in memo: v = memo[key]
                            else:
                                v = builder(s, st, fn, args)
                                memo = dict(memo); memo[key] = v; st.world['_memo'] = memo
                            s.used_models.add('havoc:' + short_name(fn.name))
                            return s.apply_result(st, fr, dest, ret_bb, v)
                if s.memo_fns and any(p.search(fn.name) or p.search(callee) for p in s.memo_fns):
                    key = ('memo', fn.name, tuple(val_key(s.deref(st, a)) for a in args))
                    memo = st.world.get('_memo', {})
                    if key in memo:
                        s.stats['memo_hits'] = s.stats.get('memo_hits', 0) + 1
                        return s.apply_result(st, fr, dest, ret_bb, memo[key])

                    def remember(ex_, st_, rv, key=key):
                        m2 = dict(st_.world.get('_memo', {})); m2[key] = rv; st_.world['_memo'] = m2
                        return rv
                    s.new_frame(st, fn, args, dest, ret_bb, remember)
                    return None
                s.new_frame(st, fn, args, dest, ret_bb)
                return None
            # trait-method call on a type parameter / closure call
            raise Unsupported('no model and no MIR for callee: ' + callee)
        s.stats['calls_model'] += 1
        s.used_models.add(mdl.__name__)
        dest_ty = None
        if dest is not None and not dest[1]: dest_ty = fr.fn.locals.get(dest[0])
        res = mdl(s, st, Call(callee, args, dest_ty, fr))
        return s.apply_result(st, fr, dest, ret_bb, res)


def val_key(v):
    """structural identity of a value (for memoisation of pure calls)"""
    if isinstance(v, SymStr):
        return ('S',) + tuple((a.ln if isinstance(a.ln, int) else ('t', a.ln.get_id()),
                               tuple(b if isinstance(b, int) else ('t', b.get_id()) for b in a.bs)) for a in v.segs)
    if isinstance(v, Int): return ('I', v.ty, v.v if v.conc else ('t', v.v.get_id()))
    if isinstance(v, bool): return ('B', v)
    if isinstance(v, (Tup, Vec)): return (type(v).__name__,) + tuple(val_key(x) for x in v.items)
    if isinstance(v, Struct): return ('St', v.ty) + tuple(val_key(x) for x in v.fields)
    if isinstance(v, Enum): return ('E', v.ty, v.variant) + tuple(val_key(x) for x in v.fields)
    if isinstance(v, Opaque): return ('O', v.tag, id(v.data))
    if hasattr(v, 'get_id'): return ('t', v.get_id())
    return ('id', id(v))


def _MERGE_RETURN(ex, st, rv):
    return _MergeRet(rv)


class _MergeRet:
    def __init__(s, v): s.v = v


def merge_vals(alts):
    """[(cond, value)] with mutually exclusive conds -> one value, or None if the shapes differ"""
    if len(alts) == 1: return alts[0][1]
    v0 = alts[0][1]
    if all(a[1] is v0 for a in alts): return v0
    if isinstance(v0, Int):
        if not all(isinstance(v, Int) and v.ty == v0.ty for _, v in alts): return None
        out = alts[-1][1].v
        for c, v in reversed(alts[:-1]): out = ite_bv(c, v.v, out, WIDTH[v0.ty])
        return Int(v0.ty, out)
    if isinstance(v0, bool) or (not isinstance(v0, (SymStr, Struct, Enum, Tup, Vec, Opaque, Closure, FnItem, MutRef, Iter, Uninit, BoxPtr)) and z3.is_bool(v0)):
        out = alts[-1][1]
        for c, v in reversed(alts[:-1]):
            out = b_or(b_and(c, v), b_and(b_not(c), out))
        return out
    if isinstance(v0, SymStr):
        if not all(isinstance(v, SymStr) for _, v in alts): return None
        fl = [(c, v.flat()) for c, v in alts]
        cap = max(f.cap for _, f in fl)
        ln = fl[-1][1].ln
        for c, f in reversed(fl[:-1]): ln = ite_bv(c, f.ln, ln, LW)
        bs = []
        for i in range(cap):
            b = fl[-1][1].bs[i] if i < fl[-1][1].cap else 0
            for c, f in reversed(fl[:-1]): b = ite_bv(c, f.bs[i] if i < f.cap else 0, b, 8)
            bs.append(b)
        return SymStr((Atom(ln, tuple(bs), min(f.minlen for _, f in fl)),))
    if isinstance(v0, Enum):
        if not all(isinstance(v, Enum) and v.variant == v0.variant and len(v.fields) == len(v0.fields) for _, v in alts): return None
        fs = []
        for i in range(len(v0.fields)):
            m = merge_vals([(c, v.fields[i]) for c, v in alts])
            if m is None: return None
            fs.append(m)
        return Enum(v0.ty, v0.variant, fs)
    if isinstance(v0, Struct):
        if not all(isinstance(v, Struct) and v.ty == v0.ty and len(v.fields) == len(v0.fields) for _, v in alts): return None
        fs = []
        for i in range(len(v0.fields)):
            m = merge_vals([(c, v.fields[i]) for c, v in alts])
            if m is None: return None
            fs.append(m)
        return Struct(v0.ty, fs)
    if isinstance(v0, (Tup, Vec)):
        if not all(type(v) is type(v0) and len(v.items) == len(v0.items) for _, v in alts): return None
        fs = []
        for i in range(len(v0.items)):
            m = merge_vals([(c, v.items[i]) for c, v in alts])
            if m is None: return None
            fs.append(m)
        return type(v0)(fs)
    return None


class Call:
    __slots__ = ('callee', 'args', 'dest_ty', 'fr')

    def __init__(s, callee, args, dest_ty, fr): s.callee = callee; s.args = args; s.dest_ty = dest_ty; s.fr = fr


def strip_generics(c):
    """drop generic argument lists `::<...>` from a path; `::<impl at file:line>` and inherent-impl segments such as
    `core::str::<impl str>::trim` are path segments (followed by `::name`) and stay, `f::<impl Read + Write>` is an argument list"""
    out = []; i = 0; n = len(c)
    while i < n:
        if c.startswith('::<', i):
            j = i + 3; dd = 1
            while dd > 0 and j < n:
                if c[j] == '<': dd += 1
                elif c[j] == '>' and c[j - 1] not in '-=': dd -= 1
                j += 1
            if c.startswith('::<impl ', i) and c.startswith('::', j) and j + 2 < n and (c[j + 2].isalnum() or c[j + 2] in '_<{'):
                out.append(c[i:j]); i = j; continue          # path segment: keep
            i = j; continue
        out.append(c[i]); i += 1
    return ''.join(out)
