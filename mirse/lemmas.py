"""Lemma-then-stub: a dependency helper may be replaced by a short spec model only after the spec has been shown
equivalent to the helper's MIR for every input within a stated bound, in the same run."""
import z3
from .sym import *
from .engine import *
from . import models as MODELS, envmodels as ENV


def lemma_filter_string(prog, cap=5):
    """FilterString::is_valid_input_string(s) returns Ok  <=>  filter_string_spec(s), for all ASCII s with |s| <= cap"""
    ex = Executor(prog, MODELS.REGISTRY)
    cons = []
    s = SymStr.fresh('p', cap, cons, ascii_only=True)
    st = State(); st.pc = list(cons)
    outs = ex.run_fn('FilterString::is_valid_input_string', [s], st)
    spec_ok = ENV.filter_string_spec(s)
    res = {'name': 'filter_string', 'cap': cap, 'paths': len(outs), 'queries': 0, 'ok': True, 'detail': None}
    for o in outs:
        if o.outcome[0] != 'return':
            res['ok'] = False; res['detail'] = 'terminal %r' % (o.outcome,); break
        is_ok = o.outcome[1].variant == 'Ok'
        bad = b_not(spec_ok) if is_ok else spec_ok
        r, m = ex.check(o.pc, bad); res['queries'] += 1
        if r != 'unsat':
            res['ok'] = False; res['detail'] = 'spec disagrees (%s) on %r' % (r, model_bytes(m, s) if m else None); break
    res['solver_s'] = round(ex.stats['solver_s'], 2)
    return res


def with_stubs(registry, names):
    """registry with the named stubs placed in front (they take precedence over MIR bodies)"""
    return [ENV.STUBS[n] for n in names] + list(registry)
