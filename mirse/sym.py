"""Symbolic values for the MIR executor: machine integers, booleans and bounded byte strings.

Conventions
  * A concrete value is a Python int/bool; a symbolic one is a z3 term.  Every helper folds constants at the
    Python level so that concrete execution never touches z3 (the executor doubles as a plain interpreter,
    which is what the differential validation against the native oracle exercises).
  * Integers wrap exactly as the MIR operation says: the *WithOverflow forms return (value, overflow flag) and the
    executor turns the flag into the `assert` the compiler emitted -- an overflow is a reachable panic, never a
    silently wrapped or mathematical integer.
  * Strings are ropes of atoms; an atom is (len, bytes[cap]) with bytes at positions >= len equal to 0.
"""
import z3

WIDTH = {'u8': 8, 'u16': 16, 'u32': 32, 'u64': 64, 'u128': 128, 'usize': 64,
         'i8': 8, 'i16': 16, 'i32': 32, 'i64': 64, 'i128': 128, 'isize': 64, 'char': 32}
SIGNED = {'i8', 'i16', 'i32', 'i64', 'i128', 'isize'}

_bvval_cache = {}


def bvval(v, w):
    k = (v, w)
    r = _bvval_cache.get(k)
    if r is None:
        r = z3.BitVecVal(v, w); _bvval_cache[k] = r
    return r


class Int:
    """machine integer (or char): ty in WIDTH, v = python int in [0, 2^w) or z3 BitVec of width w"""
    __slots__ = ('ty', 'v')

    def __init__(s, ty, v):
        s.ty = ty
        if isinstance(v, int):
            v &= (1 << WIDTH[ty]) - 1
        s.v = v

    @property
    def w(s): return WIDTH[s.ty]

    @property
    def conc(s): return isinstance(s.v, int)

    def z(s):
        return bvval(s.v, WIDTH[s.ty]) if isinstance(s.v, int) else s.v

    def signed_val(s):
        w = WIDTH[s.ty]
        return s.v - (1 << w) if (s.ty in SIGNED and s.v >> (w - 1)) else s.v

    def __repr__(s):
        return '%s:%s' % (s.signed_val() if s.conc else ('<' + str(s.v)[:40] + '>'), s.ty)


def is_conc_bool(b): return isinstance(b, bool)


def zb(b):
    return z3.BoolVal(b) if isinstance(b, bool) else b


def b_not(a):
    if isinstance(a, bool): return not a
    if z3.is_not(a): return a.arg(0)
    return z3.Not(a)


def b_and(*xs):
    out = []
    for x in xs:
        if isinstance(x, bool):
            if not x: return False
            continue
        out.append(x)
    if not out: return True
    if len(out) == 1: return out[0]
    return z3.And(out)


def b_or(*xs):
    out = []
    for x in xs:
        if isinstance(x, bool):
            if x: return True
            continue
        out.append(x)
    if not out: return False
    if len(out) == 1: return out[0]
    return z3.Or(out)


def b_implies(a, b): return b_or(b_not(a), b)


def b_eq(a, b):
    if isinstance(a, bool) and isinstance(b, bool): return a == b
    if isinstance(a, bool): return b if a else b_not(b)
    if isinstance(b, bool): return a if b else b_not(a)
    return a == b


def small_term(t, limit=150):
    """is the DAG of t smaller than `limit` nodes?  (z3.simplify can take minutes on deep ite DAGs)"""
    seen = set(); stack = [t]; n = 0
    while stack:
        x = stack.pop(); i = x.get_id()
        if i in seen: continue
        seen.add(i); n += 1
        if n > limit: return False
        stack.extend(x.children())
    return True


def simp_bool(b):
    if isinstance(b, bool): return b
    if z3.is_true(b): return True
    if z3.is_false(b): return False
    if not small_term(b): return b
    r = z3.simplify(b)
    if z3.is_true(r): return True
    if z3.is_false(r): return False
    return r


def simp_bv(v):
    """python int | z3 bv  -> python int if it simplifies to a numeral"""
    if isinstance(v, int): return v
    if z3.is_bv_value(v): return v.as_long()
    if not small_term(v): return v
    r = z3.simplify(v)
    if z3.is_bv_value(r): return r.as_long()
    return r


def ite(c, a, b):
    """generic if-then-else over ints (python/z3), bools, Int"""
    if isinstance(c, bool): return a if c else b
    if isinstance(a, Int):
        if a.conc and b.conc and a.v == b.v: return a
        return Int(a.ty, z3.If(c, a.z(), b.z()))
    if isinstance(a, bool) or z3.is_bool(a) if not isinstance(a, int) else False:
        if isinstance(a, bool) and isinstance(b, bool):
            if a == b: return a
            return c if a else b_not(c)
        return z3.If(c, zb(a), zb(b))
    raise TypeError('ite on %r' % (a,))


def ite_bv(c, a, b, w):
    """a, b: python int or z3 bv of width w"""
    if isinstance(c, bool): return a if c else b
    if isinstance(a, int) and isinstance(b, int) and a == b: return a
    if not isinstance(a, int) and not isinstance(b, int) and a.eq(b): return a
    return z3.If(c, bvval(a, w) if isinstance(a, int) else a, bvval(b, w) if isinstance(b, int) else b)


BYTE_DOMAIN = {}     # z3 byte-variable name -> frozenset of admissible values (registered by SymStr.fresh from the alphabet)
_alpha_cache = {}


def byte_domain(t):
    """admissible values of a byte term if it is a registered input variable, else None"""
    if isinstance(t, int): return None
    if t.num_args() == 0 and t.decl().kind() == z3.Z3_OP_UNINTERPRETED:
        return BYTE_DOMAIN.get(t.decl().name())
    return None


def bv_eq(a, b, w):
    if isinstance(a, int) and isinstance(b, int): return a == b
    if w == 8:
        if isinstance(b, int):
            d = byte_domain(a)
            if d is not None and b not in d: return False
        elif isinstance(a, int):
            d = byte_domain(b)
            if d is not None and a not in d: return False
    if w > 8:
        la, ha = bounds(a); lb, hb = bounds(b)
        if ha < lb or hb < la: return False
    if isinstance(a, int): a = bvval(a, w)
    elif isinstance(b, int): b = bvval(b, w)
    elif a.eq(b): return True
    return a == b


def bv_ult(a, b, w):
    if isinstance(a, int) and isinstance(b, int): return a < b
    if isinstance(b, int) and b == 0: return False
    la, ha = bounds(a); lb, hb = bounds(b)
    if ha < lb: return True
    if la >= hb: return False
    return z3.ULT(bvval(a, w) if isinstance(a, int) else a, bvval(b, w) if isinstance(b, int) else b)


def bv_ule(a, b, w):
    if isinstance(a, int) and isinstance(b, int): return a <= b
    if isinstance(a, int) and a == 0: return True
    la, ha = bounds(a); lb, hb = bounds(b)
    if ha <= lb: return True
    if la > hb: return False
    return z3.ULE(bvval(a, w) if isinstance(a, int) else a, bvval(b, w) if isinstance(b, int) else b)


def bv_add(a, b, w):
    if isinstance(a, int) and isinstance(b, int): return (a + b) & ((1 << w) - 1)
    if isinstance(a, int):
        if a == 0: return b
        a = bvval(a, w)
    if isinstance(b, int):
        if b == 0: return a
        b = bvval(b, w)
    return a + b


def bv_sub(a, b, w):
    if isinstance(a, int) and isinstance(b, int): return (a - b) & ((1 << w) - 1)
    if isinstance(b, int):
        if b == 0: return a
        b = bvval(b, w)
    if isinstance(a, int): a = bvval(a, w)
    return a - b


# ------------------------------------------------------------------ interval analysis (used only to size capacities)
_fresh_serial = 0
VAR_BOUNDS = {}      # z3 variable name -> (lo, hi), registered by SymStr.fresh for length variables
_bounds_cache = {}


def bounds(t, w=64):
    """sound (lo, hi) over-approximation of an unsigned bit-vector term (python int: exact)"""
    if isinstance(t, int): return t, t
    k = t.get_id()
    r = _bounds_cache.get(k)
    if r is not None: return r[1]
    r = _bounds(t)
    if len(_bounds_cache) > 400000: _bounds_cache.clear()
    _bounds_cache[k] = (t, r)      # holding t keeps its AST id from being recycled while the entry lives
    return r


def _bounds(t):
    w = t.size(); full = (0, (1 << w) - 1)
    if z3.is_bv_value(t):
        v = t.as_long(); return v, v
    d = t.decl().kind()
    if d == z3.Z3_OP_UNINTERPRETED:
        return VAR_BOUNDS.get(t.decl().name(), full)
    if d == z3.Z3_OP_ITE:
        a = bounds(t.arg(1)); b = bounds(t.arg(2))
        return min(a[0], b[0]), max(a[1], b[1])
    if d == z3.Z3_OP_BADD:
        lo = hi = 0
        for i in range(t.num_args()):
            a = bounds(t.arg(i)); lo += a[0]; hi += a[1]
        if hi > full[1]: return full
        return lo, hi
    if d == z3.Z3_OP_BSUB and t.num_args() == 2:
        a = bounds(t.arg(0)); b = bounds(t.arg(1))
        if a[0] >= b[1]: return a[0] - b[1], a[1] - b[0]
        return full
    if d == z3.Z3_OP_ZERO_EXT:
        return bounds(t.arg(0))
    if d == z3.Z3_OP_EXTRACT:
        a = bounds(t.arg(0)); hi_bit = t.params()[0]; lo_bit = t.params()[1]
        if lo_bit == 0 and a[1] < (1 << (hi_bit + 1)): return a
        return full
    if d == z3.Z3_OP_BMUL and t.num_args() == 2:
        a = bounds(t.arg(0)); b = bounds(t.arg(1))
        if a[1] * b[1] <= full[1]: return a[0] * b[0], a[1] * b[1]
        return full
    return full


# ------------------------------------------------------------------ integer operations (MIR BinOp / UnOp)
def _sx(v, w):
    return v - (1 << w) if v >> (w - 1) else v


def int_binop(op, a, b):
    """a, b: Int (same type, except shifts).  Returns Int, bool/z3 Bool, or (Int, overflow) for *WithOverflow."""
    ty = a.ty; w = WIDTH[ty]; sg = ty in SIGNED; mask = (1 << w) - 1
    if op in ('Shl', 'Shr', 'ShlUnchecked', 'ShrUnchecked'):
        # shift amount may have another type; MIR masks/asserts separately with overflow checks on
        if a.conc and b.conc:
            sh = b.v % w
            if op.startswith('Shl'): return Int(ty, (a.v << sh) & mask)
            return Int(ty, (_sx(a.v, w) >> sh) & mask if sg else a.v >> sh)
        bz = b.z()
        if b.w < w: bz = z3.ZeroExt(w - b.w, bz)
        elif b.w > w: bz = z3.Extract(w - 1, 0, bz)
        bz = bz & bvval(w - 1, w)
        if op.startswith('Shl'): return Int(ty, a.z() << bz)
        return Int(ty, (a.z() >> bz) if sg else z3.LShR(a.z(), bz))
    if a.conc and b.conc:
        x, y = a.v, b.v
        sx, sy = (_sx(x, w), _sx(y, w)) if sg else (x, y)
        if op in ('Add', 'AddUnchecked'): return Int(ty, x + y)
        if op in ('Sub', 'SubUnchecked'): return Int(ty, x - y)
        if op in ('Mul', 'MulUnchecked'): return Int(ty, sx * sy)
        if op == 'AddWithOverflow':
            r = sx + sy; return Int(ty, r), not (-(1 << (w - 1)) <= r < (1 << (w - 1))) if sg else r > mask
        if op == 'SubWithOverflow':
            r = sx - sy; return Int(ty, r), not (-(1 << (w - 1)) <= r < (1 << (w - 1))) if sg else r < 0
        if op == 'MulWithOverflow':
            r = sx * sy; return Int(ty, r), not (-(1 << (w - 1)) <= r < (1 << (w - 1))) if sg else r > mask
        if op == 'Div':
            q = abs(sx) // abs(sy); return Int(ty, q if (sx < 0) == (sy < 0) else -q)
        if op == 'Rem':
            r = abs(sx) % abs(sy); return Int(ty, -r if sx < 0 else r)
        if op == 'BitAnd': return Int(ty, x & y)
        if op == 'BitOr': return Int(ty, x | y)
        if op == 'BitXor': return Int(ty, x ^ y)
        if op == 'Eq': return x == y
        if op == 'Ne': return x != y
        if op == 'Lt': return sx < sy
        if op == 'Le': return sx <= sy
        if op == 'Gt': return sx > sy
        if op == 'Ge': return sx >= sy
        raise NotImplementedError(op)
    x, y = a.z(), b.z()
    if op in ('Add', 'AddUnchecked'): return Int(ty, x + y)
    if op in ('Sub', 'SubUnchecked'): return Int(ty, x - y)
    if op in ('Mul', 'MulUnchecked'): return Int(ty, x * y)
    if op == 'AddWithOverflow':
        ov = z3.Not(z3.And(z3.BVAddNoOverflow(x, y, sg), z3.BVAddNoUnderflow(x, y))) if sg else z3.Not(z3.BVAddNoOverflow(x, y, False))
        return Int(ty, x + y), ov
    if op == 'SubWithOverflow':
        ov = z3.Not(z3.And(z3.BVSubNoOverflow(x, y), z3.BVSubNoUnderflow(x, y, True))) if sg else z3.ULT(x, y)
        return Int(ty, x - y), ov
    if op == 'MulWithOverflow':
        ov = z3.Not(z3.And(z3.BVMulNoOverflow(x, y, sg), z3.BVMulNoUnderflow(x, y))) if sg else z3.Not(z3.BVMulNoOverflow(x, y, False))
        return Int(ty, x * y), ov
    if op == 'Div': return Int(ty, (x / y) if sg else z3.UDiv(x, y))
    if op == 'Rem': return Int(ty, z3.SRem(x, y) if sg else z3.URem(x, y))
    if op == 'BitAnd': return Int(ty, x & y)
    if op == 'BitOr': return Int(ty, x | y)
    if op == 'BitXor': return Int(ty, x ^ y)
    if op == 'Eq': return x == y
    if op == 'Ne': return x != y
    if op == 'Lt': return (x < y) if sg else z3.ULT(x, y)
    if op == 'Le': return (x <= y) if sg else z3.ULE(x, y)
    if op == 'Gt': return (x > y) if sg else z3.UGT(x, y)
    if op == 'Ge': return (x >= y) if sg else z3.UGE(x, y)
    raise NotImplementedError(op)


def int_cast(a, ty):
    """IntToInt cast with Rust `as` semantics (truncate / zero- or sign-extend by the SOURCE type's signedness)"""
    w0 = WIDTH[a.ty]; w1 = WIDTH[ty]
    if a.conc:
        v = _sx(a.v, w0) if a.ty in SIGNED else a.v
        return Int(ty, v)
    if w1 == w0: return Int(ty, a.v)
    if w1 < w0: return Int(ty, z3.Extract(w1 - 1, 0, a.v))
    return Int(ty, z3.SignExt(w1 - w0, a.v) if a.ty in SIGNED else z3.ZeroExt(w1 - w0, a.v))


# ------------------------------------------------------------------ strings
LW = 64


class Atom:
    """(ln, bs): ln python int or z3 BV64; bs tuple of python int / z3 BV8.  If ln is an int, len(bs) == ln.
    Invariant: bs[i] == 0 for i >= ln (established by constructors and by the input constraints)."""
    __slots__ = ('ln', 'bs', 'minlen')

    def __init__(s, ln, bs, minlen=0):
        if not isinstance(ln, int):
            ln = simp_bv(ln)
        if isinstance(ln, int):
            if ln > len(bs) and ln >= (1 << 63):
                # a wrapped (negative) length: the operation's precondition (offset <= length) is false on this branch, which the
                # caller guards with a fork condition that is therefore unsatisfiable; any value will do
                ln = 0; bs = ()
            bs = tuple(bs[:ln])
            assert len(bs) == ln, (ln, len(bs))
            minlen = ln
        else:
            lo, hi = bounds(ln)
            if hi < len(bs): bs = bs[:hi]      # bytes at positions >= len are 0 by invariant: dropping them is exact
            if lo > minlen: minlen = min(lo, len(bs))
        s.ln = ln; s.bs = tuple(bs); s.minlen = minlen

    @property
    def cap(s): return len(s.bs)

    @property
    def conc_len(s): return isinstance(s.ln, int)

    def concrete(s):
        if not isinstance(s.ln, int): return None
        for b in s.bs:
            if not isinstance(b, int): return None
        return bytes(s.bs)

    def lnz(s): return bvval(s.ln, LW) if isinstance(s.ln, int) else s.ln

    def byte_at(s, idx):
        """idx python int or z3 BV64; returns byte (0 when out of range)"""
        if isinstance(idx, int): return s.bs[idx] if 0 <= idx < len(s.bs) else 0
        lo, hi = bounds(idx)
        out = 0
        for j in range(min(len(s.bs) - 1, hi), lo - 1, -1):
            out = ite_bv(idx == bvval(j, LW), s.bs[j], out, 8)
        return out


def _bz(b): return bvval(b, 8) if isinstance(b, int) else b


class SymStr:
    """immutable rope of atoms"""
    __slots__ = ('segs', '_flat', '_len')

    def __init__(s, segs):
        out = []
        for a in segs:
            if a.cap == 0: continue
            if out and out[-1].conc_len and a.conc_len:
                out[-1] = Atom(out[-1].ln + a.ln, out[-1].bs + a.bs)
            else:
                out.append(a)
        s.segs = tuple(out); s._flat = None; s._len = None

    # ---- constructors
    @staticmethod
    def const(b):
        if isinstance(b, str): b = b.encode('utf-8')
        return SymStr((Atom(len(b), tuple(b)),))

    @staticmethod
    def from_bytes_list(bs):
        return SymStr((Atom(len(bs), tuple(bs)),))

    @staticmethod
    def fresh(name, cap, cons, minlen=0, exact_len=None, ascii_only=False, alphabet=None, stable_name=False):
        """new symbolic string; appends its well-formedness constraints to cons"""
        bs = [z3.BitVec('%s_%d' % (name, i), 8) for i in range(cap)]
        if exact_len is not None:
            a = Atom(exact_len, tuple(bs[:exact_len])); ln = exact_len
        else:
            global _fresh_serial
            _fresh_serial += 1
            lname = ('%s_len' % name) if stable_name else '%s_len#%d' % (name, _fresh_serial)
            ln = z3.BitVec(lname, LW)
            VAR_BOUNDS[lname] = (minlen, cap)
            cons.append(z3.ULE(ln, bvval(cap, LW)))
            if minlen: cons.append(z3.UGE(ln, bvval(minlen, LW)))
            for i, b in enumerate(bs):
                if i >= minlen: cons.append(z3.Or(z3.UGT(ln, bvval(i, LW)), b == 0))
            a = Atom(ln, tuple(bs), minlen)
        dom = None
        if alphabet is not None:
            if callable(alphabet):
                key = id(alphabet)
                if key not in _alpha_cache:
                    vals = frozenset(c for c in range(256) if z3.is_true(z3.simplify(alphabet(bvval(c, 8)))))
                    _alpha_cache[key] = (alphabet, vals)
                dom = _alpha_cache[key][1]
            else:
                dom = frozenset(alphabet)
        elif ascii_only:
            dom = frozenset(range(128))
        for i, b in enumerate(a.bs):
            inr = True if isinstance(ln, int) else z3.UGT(ln, bvval(i, LW))
            if ascii_only: cons.append(z3.ULT(b, 0x80))
            if alphabet is not None:
                ok = z3.Or([b == c for c in alphabet] if not callable(alphabet) else [alphabet(b)])
                cons.append(ok if inr is True else z3.Or(z3.Not(inr), ok))
            if dom is not None:
                # positions beyond the length hold 0 by the string invariant
                BYTE_DOMAIN[b.decl().name()] = dom if isinstance(ln, int) else (dom | frozenset([0]))
        return SymStr((a,))

    # ---- basic observers
    @property
    def cap(s): return sum(a.cap for a in s.segs)

    def length(s):
        if s._len is None:
            n = 0
            for a in s.segs: n = bv_add(n, a.ln, LW)
            s._len = n
        return s._len

    def lnz(s):
        n = s.length(); return bvval(n, LW) if isinstance(n, int) else n

    def concrete(s):
        out = b''
        for a in s.segs:
            c = a.concrete()
            if c is None: return None
            out += c
        return out

    @property
    def is_concrete(s): return all(a.concrete() is not None for a in s.segs)

    def flat(s):
        """single atom with the same content (mux circuit when an inner length is symbolic)"""
        if s._flat is not None: return s._flat
        if len(s.segs) == 0: s._flat = Atom(0, ())
        elif len(s.segs) == 1: s._flat = s.segs[0]
        else:
            # offsets: concrete prefix handled by slicing; after the first symbolic-length atom use muxes
            out = []; off = 0; off_lo = 0; off_hi = 0; total_cap = s.cap
            sym = False
            for a in s.segs:
                if not sym:
                    if a.conc_len:
                        out.extend(a.bs); off += a.ln; off_lo = off_hi = off; continue
                    # first symbolic atom: its bytes start at concrete off; bytes >= ln are 0 already
                    out.extend(a.bs); sym = True
                    off_sym = bv_add(off, a.ln, LW); off_lo = off + a.minlen; off_hi = off + a.cap
                    continue
                # place atom a at symbolic offset off_sym in [off_lo, off_hi]
                need = off_hi + a.cap
                while len(out) < need: out.append(0)
                new = list(out)
                for i in range(off_lo, need):
                    # byte i comes from a at index i - off_sym when off_sym <= i < off_sym + a.ln
                    cand = out[i] if i < off_hi else 0
                    # iterate possible offsets
                    val = cand
                    for o in range(min(off_hi, i), off_lo - 1, -1):
                        k = i - o
                        if k >= a.cap: break
                        val = ite_bv(off_sym == bvval(o, LW), a.bs[k], val, 8)
                    new[i] = val
                out = new
                off_sym = bv_add(off_sym, a.ln, LW); off_lo += a.minlen; off_hi += a.cap
            s._flat = Atom(s.length(), tuple(out[:total_cap]) if not isinstance(s.length(), int) else tuple(out[:s.length()]),
                           sum(a.minlen for a in s.segs))
        return s._flat

    def flat_segs(s):
        return s.segs

    def byte_at(s, idx):
        if isinstance(idx, int):
            # walk concrete-length prefix
            off = 0
            for a in s.segs:
                if a.conc_len:
                    if idx < off + a.ln: return a.bs[idx - off]
                    off += a.ln
                else:
                    break
            else:
                return 0
        return s.flat().byte_at(idx)

    # ---- construction
    def concat(s, o): return SymStr(s.segs + o.segs)

    @staticmethod
    def join(items, sep=None):
        segs = []
        for i, it in enumerate(items):
            if i and sep is not None: segs.extend(sep.segs)
            segs.extend(it.segs)
        return SymStr(segs)

    def drop(s, off):
        """suffix starting at byte offset off (python int or z3 BV64); caller guarantees off <= len on the path"""
        if isinstance(off, int) and off == 0: return s
        lo, hi = bounds(off)
        segs = list(s.segs); pos = 0; k = 0
        # skip whole concrete-length segments that end at or before lo
        while k < len(segs) and segs[k].conc_len and pos + segs[k].ln <= lo:
            pos += segs[k].ln; k += 1
        if k == len(segs): return SymStr(())
        rel_lo = lo - pos
        if isinstance(off, int):
            a = segs[k]
            if a.conc_len:
                return SymStr([Atom(a.ln - rel_lo, a.bs[rel_lo:])] + segs[k + 1:])
            # cut inside a symbolic-length atom at a concrete offset: bytes shift left, no mask needed (zeros stay zeros)
            rest = SymStr(segs[k:]).flat()
            nl = bv_sub(rest.ln, rel_lo, LW)
            return SymStr((Atom(nl, rest.bs[rel_lo:], max(0, rest.minlen - rel_lo)),))
        rest = SymStr(segs[k:]).flat()
        rel = bv_sub(off, pos, LW)
        nl = bv_sub(rest.ln, rel, LW)
        cap = max(0, rest.cap - rel_lo)
        bs = tuple(rest.byte_at(bv_add(rel, i, LW)) for i in range(cap))
        return SymStr((Atom(nl, bs),))

    def take(s, n):
        """prefix of n bytes (python int or z3 BV64); caller guarantees n <= len on the path"""
        lo, hi = bounds(n)
        segs = list(s.segs); pos = 0; k = 0; out = []
        while k < len(segs) and segs[k].conc_len and pos + segs[k].ln <= lo:
            out.append(segs[k]); pos += segs[k].ln; k += 1
        if k == len(segs): return SymStr(out)
        if isinstance(n, int):
            a = segs[k]
            if a.conc_len:
                out.append(Atom(n - pos, a.bs[:n - pos])); return SymStr(out)
            rest = SymStr(segs[k:]).flat()
            bs = tuple(rest.bs[:n - pos]) + (0,) * max(0, n - pos - rest.cap)
            out.append(Atom(n - pos, bs)); return SymStr(out)
        rest = SymStr(segs[k:]).flat()
        rel = bv_sub(n, pos, LW)
        cap = max(0, min(rest.cap, hi - pos))
        bs = []
        for i in range(cap):
            if i < lo - pos: bs.append(rest.bs[i])
            else: bs.append(ite_bv(z3.UGT(rel, bvval(i, LW)), rest.bs[i], 0, 8))
        out.append(Atom(rel, tuple(bs), max(0, lo - pos)))
        return SymStr(out)

    def substr(s, off, n):
        """bytes [off, off+n) ; caller guarantees off+n <= len (on the current path)"""
        return s.drop(off).take(n)

    def suffix_from(s, off):
        return s.drop(off)

    # ---- predicates (return python bool or z3 Bool)
    def eq(s, o):
        la, lb = s.length(), o.length()
        if isinstance(la, int) and isinstance(lb, int) and la != lb: return False
        a, b = s.flat(), o.flat()
        cs = [bv_eq(la, lb, LW)]
        cap = max(a.cap, b.cap)
        if isinstance(la, int) and isinstance(lb, int): cap = la
        for i in range(cap):
            x = a.bs[i] if i < a.cap else 0; y = b.bs[i] if i < b.cap else 0
            cs.append(bv_eq(x, y, 8))
        return b_and(*cs)

    def match_at(s, i, pat):
        """pattern `pat` (python bytes, or SymStr with concrete length) occurs at concrete index i"""
        f = s.flat()
        if isinstance(pat, (bytes, bytearray)):
            pb = tuple(pat)
        else:
            pb = pat.flat().bs; assert pat.flat().conc_len
        if i + len(pb) > f.cap: return False
        cs = [bv_ule(i + len(pb), f.ln, LW)]
        for k, c in enumerate(pb): cs.append(bv_eq(f.bs[i + k], c, 8))
        return b_and(*cs)

    def starts_with(s, pat): return s.match_at(0, pat)

    def ends_with(s, pat):
        pl = len(pat) if isinstance(pat, (bytes, bytearray)) else pat.flat().ln
        f = s.flat()
        if bounds(f.ln)[1] < pl: return False
        if f.conc_len:
            if f.ln < pl: return False
            return s.match_at(f.ln - pl, pat)
        alts = []
        for i in range(0, f.cap - pl + 1):
            alts.append(b_and(bv_eq(f.ln, i + pl, LW), s.match_at(i, pat)))
        return b_or(*alts)

    def find(s, pat, start=0):
        """(found: bool, index: int|bv) of the first occurrence of concrete-length pattern at index >= start"""
        pl = len(pat) if isinstance(pat, (bytes, bytearray)) else pat.flat().ln
        f = s.flat()
        if pl == 0: return True, start
        ms = [(i, s.match_at(i, pat)) for i in range(start, f.cap - pl + 1)]
        ms = [(i, m) for i, m in ms if m is not False]
        found = b_or(*[m for _, m in ms])
        idx = 0
        for i, m in reversed(ms):
            idx = ite_bv(m, i, idx, LW) if not (m is True) else i
        return found, idx

    def rfind(s, pat):
        pl = len(pat) if isinstance(pat, (bytes, bytearray)) else pat.flat().ln
        f = s.flat()
        ms = [(i, s.match_at(i, pat)) for i in range(0, f.cap - pl + 1)]
        ms = [(i, m) for i, m in ms if m is not False]
        found = b_or(*[m for _, m in ms])
        idx = 0
        for i, m in ms:
            idx = ite_bv(m, i, idx, LW) if not (m is True) else i
        return found, idx

    def contains(s, pat):
        return s.find(pat)[0]

    def all_bytes(s, pred):
        """forall i < len: pred(byte) ; pred works on python ints and z3 bv8 and returns bool / z3 Bool"""
        f = s.flat(); cs = []
        for i, b in enumerate(f.bs):
            p = pred(b)
            if f.conc_len: cs.append(p)
            else: cs.append(b_or(bv_ule(f.ln, i, LW), p))
        return b_and(*cs)

    def any_byte(s, pred):
        return b_not(s.all_bytes(lambda b: b_not(pred(b))))

    def map_bytes(s, fn):
        segs = []
        for a in s.segs:
            segs.append(Atom(a.ln, tuple(fn(b) for b in a.bs), a.minlen))
        return SymStr(segs)

    def __repr__(s):
        c = s.concrete()
        if c is not None: return 'S(%r)' % (c[:60],)
        return 'S<segs=%d cap=%d>' % (len(s.segs), s.cap)


def byte_in_range(b, lo, hi):
    if isinstance(b, int): return lo <= b <= hi
    return z3.And(z3.UGE(b, lo), z3.ULE(b, hi))


def byte_is(b, c):
    if isinstance(b, int): return b == c
    return b == c


def byte_in(b, cs):
    if isinstance(b, int): return b in cs
    return z3.Or([b == c for c in cs])


def model_bytes(m, s):
    """evaluate a SymStr under a z3 model -> python bytes"""
    out = bytearray()
    for a in s.segs:
        n = a.ln if isinstance(a.ln, int) else m.eval(a.ln, model_completion=True).as_long()
        for b in a.bs[:n]:
            out.append(b if isinstance(b, int) else m.eval(b, model_completion=True).as_long())
    return bytes(out)


def model_int(m, x):
    if isinstance(x, Int): x = x.v
    if isinstance(x, int): return x
    return m.eval(x, model_completion=True).as_long()


def model_bool(m, x):
    if isinstance(x, bool): return x
    return z3.is_true(m.eval(x, model_completion=True))
