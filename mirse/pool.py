"""Engine T: the worker pool as a transition system extracted from MIR, decided by bounded model checking in z3.

Front end: the MIR of `Worker::new::{closure#0}` is executed by the mirse executor with *abstract* models of the
synchronisation primitives; every path through one loop iteration yields the ordered list of synchronisation events the
compiler placed there (lock, unlock = drop of the value owning the MutexGuard, recv, call_once of the job, ...).  The
set of iteration traces is turned into a small automaton per worker.  `ThreadPool::new` and `ThreadPool::execute` are
executed the same way (spawn count, send count).

Back end: N copies of the worker automaton + the submitter, primitives by their documented contracts (mutex: exclusive,
blocking, poisoned when a holder panics; channel: FIFO, recv blocks while empty; job: start and finish are separate
events; a rendezvous(R) job can finish only once R jobs have started).  The schedule is a symbolic sequence of thread
ids; every property is a z3 query over all schedules of length <= K.
"""
import re, time
import z3
from .sym import *
from .engine import *
from . import models as MODELS
from .models import model, D

T_REG = []


def tmodel(*pats):
    def deco(fn):
        for p in pats: T_REG.append((re.compile(p), fn))
        return fn
    return deco


class Guard:
    def __init__(s, n): s.n = n

    def __repr__(s): return 'Guard#%d' % s.n


def contains_guard(v, depth=0):
    if isinstance(v, Guard): return True
    if depth > 6: return False
    if isinstance(v, (Enum, Struct)): return any(contains_guard(x, depth + 1) for x in v.fields)
    if isinstance(v, (Tup, Vec)): return any(contains_guard(x, depth + 1) for x in v.items)
    if isinstance(v, Opaque) and isinstance(v.data, Guard): return True
    return False


def ev(st, *e): st.log(tuple(e))


@tmodel(r'^<Arc<.*> as Deref>::deref$', r'^<Arc<.*> as Clone>::clone$', r'^Arc::<.*>::clone$', r'^Arc::<.*>::new$', r'^std::sync::Mutex::<.*>::new$')
def t_ident(ex, st, c): return D(ex, st, c.args[0])


@tmodel(r'^std::sync::Mutex::<.*>::lock$', r'^Mutex::<.*>::lock$')
def t_lock(ex, st, c):
    n = len([e for e in st.trace if e[0] == 'lock'])
    g = Guard(n)
    ok = z3.Bool(ex.fresh('lock_ok'))
    return Fork([(ok, _Ev(('lock', 'ok'), Ok(g))), (z3.Not(ok), _Ev(('lock', 'poisoned'), Err(Opaque('PoisonError', g))))])


@tmodel(r'^std::sync::Mutex::<.*>::try_lock$')
def t_try_lock(ex, st, c):
    g = Guard(len(st.trace))
    a = z3.Bool(ex.fresh('trylock_ok'))
    return Fork([(a, _Ev(('try_lock', 'ok'), Ok(g))), (z3.Not(a), _Ev(('try_lock', 'busy'), Err(Opaque('TryLockError'))))])


class _Ev:
    """model result wrapper: log an event when this alternative is taken, then continue with value"""

    def __init__(s, e, v): s.e = e; s.v = v


@tmodel(r"^<std::sync::MutexGuard<'_, .*> as Deref>::deref$", r"^<std::sync::MutexGuard<'_, .*> as DerefMut>::deref_mut$", r"^PoisonError::<.*>::into_inner$", r"^PoisonError::<.*>::get_ref$")
def t_guard_deref(ex, st, c):
    v = D(ex, st, c.args[0])
    if isinstance(v, Opaque) and v.tag == 'PoisonError': return v.data
    return Opaque('Receiver', v)


@tmodel(r'^std::sync::mpsc::Receiver::<.*>::recv$')
def t_recv(ex, st, c):
    ok = z3.Bool(ex.fresh('recv_ok'))
    return Fork([(ok, _Ev(('recv', 'ok'), Ok(Opaque('Job')))), (z3.Not(ok), _Ev(('recv', 'disconnected'), Err(Opaque('RecvError'))))])


@tmodel(r'^std::sync::mpsc::Receiver::<.*>::try_recv$')
def t_try_recv(ex, st, c):
    a = z3.BitVec(ex.fresh('tryrecv'), 2)
    return Fork([(a == 0, _Ev(('try_recv', 'ok'), Ok(Opaque('Job')))), (a == 1, _Ev(('try_recv', 'empty'), Err(Enum('TryRecvError', 'Empty', ())))),
                 (a == 2, _Ev(('try_recv', 'disconnected'), Err(Enum('TryRecvError', 'Disconnected', ()))))])


@tmodel(r'^std::sync::mpsc::Receiver::<.*>::recv_timeout$')
def t_recv_timeout(ex, st, c):
    a = z3.BitVec(ex.fresh('recvto'), 2)
    return Fork([(a == 0, _Ev(('try_recv', 'ok'), Ok(Opaque('Job')))), (a == 1, _Ev(('try_recv', 'empty'), Err(Enum('RecvTimeoutError', 'Timeout', ())))),
                 (a == 2, _Ev(('try_recv', 'disconnected'), Err(Enum('RecvTimeoutError', 'Disconnected', ()))))])


@tmodel(r'^<Box<dyn FnOnce\(\) \+ Send> as FnOnce<\(\)>>::call_once$', r'^<Box<dyn FnOnce.*> as FnOnce<.*>>::call_once$')
def t_call(ex, st, c):
    ev(st, 'call'); return UNIT


@tmodel(r'^std::sync::mpsc::channel$')
def t_channel(ex, st, c):
    ev(st, 'channel'); return Tup((Opaque('Sender'), Opaque('Receiver')))


@tmodel(r'^std::sync::mpsc::Sender::<.*>::send$')
def t_send(ex, st, c):
    ok = z3.Bool(ex.fresh('send_ok'))
    return Fork([(ok, _Ev(('send', 'ok'), Ok(UNIT))), (z3.Not(ok), _Ev(('send', 'err'), Err(Opaque('SendError'))))])


@tmodel(r'^Builder::new$', r'^Builder::name$', r'^std::thread::Builder::new$', r'^std::thread::Builder::name$')
def t_builder(ex, st, c): return Opaque('Builder')


@tmodel(r'^Builder::spawn$', r'^std::thread::Builder::spawn$', r'^std::thread::spawn$', r'^spawn$')
def t_spawn(ex, st, c):
    ev(st, 'spawn'); return Ok(Opaque('JoinHandle')) if 'Builder' in c.callee else Opaque('JoinHandle')


@tmodel(r'^<SendError<.*> as ToString>::to_string$', r'^<PoisonError<.*> as ToString>::to_string$')
def t_err_str(ex, st, c): return SymStr.const('<error>')


@tmodel(r'^std::thread::sleep$', r'^sleep$', r'^std::thread::yield_now$', r'^yield_now$', r'^current$', r'^Thread::name$')
def t_sleep(ex, st, c):
    if 'current' in c.callee: return Opaque('Thread')
    if 'name' in c.callee: return NONE
    ev(st, 'sleep'); return UNIT


def registry():
    return T_REG + MODELS.REGISTRY


def _install():
    orig = Executor.apply_result

    def apply_result(s, st, fr, dest, ret_bb, res):
        if isinstance(res, _Ev):
            st.log(res.e)
            return s.apply_result(st, fr, dest, ret_bb, res.v)
        return orig(s, st, fr, dest, ret_bb, res)
    Executor.apply_result = apply_result


_install()


class PoolExecutor(Executor):
    """executor that reports `drop(place)` of a value owning a MutexGuard as an 'unlock' event and stops when the loop
    head of the worker closure is reached again"""

    def __init__(s, prog, loop_head=None):
        Executor.__init__(s, prog, registry())
        s.loop_head = loop_head
        s.block_hook = s._block; s.drop_hook = s._drop; s.move_hook = s._move

    def _block(s, st, fr):
        if s.loop_head is not None and len(st.frames) == 1 and fr.bb == s.loop_head:
            seen = st.world.get('_head_visits', 0)
            if seen >= 1:
                st.outcome = ('stop', 'loop-head', None); return [st]
            st.world['_head_visits'] = seen + 1
        return None

    def _drop(s, st, fr, place):
        try:
            v = s.read_place(st, fr, place)
        except (Unsupported, KeyError, IndexError):
            return
        if contains_guard(v):
            st.log(('unlock',))
            try: s.write_place(st, fr, place, UNINIT)
            except Unsupported: pass

    def _move(s, st, fr, src):
        # whole-local move: the source no longer owns the value (a later drop of it is not an unlock)
        if not src[1]:
            val = fr.locals.get(src[0])
            if val is not None and contains_guard(val): fr.locals[src[0]] = UNINIT


def _calls_of(f):
    out = []
    for blk in f.blocks.values():
        for stt in blk:
            if stt and stt[0] == 'call': out.append(str(stt[2]))
    return out


def closure_fn(prog, pattern=None):
    """with a pattern: the first closure whose name matches.  Without: the worker loop of the pool -- the closure in the
    thread_pool module that takes the queue lock / receives from the channel (identified by what it calls, not by its
    position, so that helper closures added by a refactoring do not shift it)"""
    if pattern is not None:
        for name, f in prog.crate_fns['rws'].items():
            if re.search(pattern, name) and not f.is_const: return f
        return None
    cands = []
    for name, f in prog.crate_fns['rws'].items():
        if f.is_const or 'thread_pool::' not in name: continue
        calls = _calls_of(f)
        direct = any(re.search(r'Mutex(::<.*>|<.*>)?::lock$|Receiver(::<.*>|<.*>)?::(recv|try_recv|recv_timeout)$', c) for c in calls)
        if '{closure' in name and direct: cands.append((0, name, f))
        elif '{closure' in name:
            # the loop may call a helper of the same module that takes the lock (fn next_job(..)): one level of indirection
            for c in calls:
                g = prog.get(re.sub(r'::<.*>$', '', c), 'rws') if 'thread_pool' in c or 'Worker::' in c or 'ThreadPool::' in c else None
                if g is not None and any(re.search(r'Mutex(::<.*>|<.*>)?::lock$|Receiver(::<.*>|<.*>)?::(recv|try_recv|recv_timeout)$', c2) for c2 in _calls_of(g)):
                    cands.append((1, name, f)); break
    cands.sort(key=lambda t: (t[0], t[1]))
    return cands[0][2] if cands else None


def _succs(blk):
    """successor blocks of the terminator of a (non-cleanup) block: goto, drop / call / assert return targets, switch targets"""
    out = []
    for stt in blk:
        k = stt[0]
        if k == 'goto': out.append(stt[1])
        elif k == 'drop': out.append(stt[2])
        elif k == 'assert': out.append(stt[4])
        elif k == 'call' and stt[4] is not None: out.append(stt[4])
        elif k == 'switch':
            out.extend(t for _, t in stt[2])
            if stt[3] is not None: out.append(stt[3])
    return [t for t in out if isinstance(t, int)]


def find_loop_head(fn):
    """header of the outermost loop: the target, discovered first in a depth-first walk from bb0, of a back edge (an edge to a
    block on the current DFS stack).  Every kind of terminator edge counts -- the back edge of a `loop {}` is a `goto` in some
    shapes and the return edge of the guard's `drop` in others (match-based bodies)."""
    order = {}; on_stack = set(); heads = []
    stack = [(0, iter(_succs(fn.blocks.get(0, []))))]; order[0] = 0; on_stack.add(0)
    while stack:
        b, it = stack[-1]
        nxt = next(it, None)
        if nxt is None:
            stack.pop(); on_stack.discard(b); continue
        if nxt in fn.cleanup or nxt not in fn.blocks: continue
        if nxt in on_stack: heads.append(nxt); continue
        if nxt in order: continue
        order[nxt] = len(order); on_stack.add(nxt)
        stack.append((nxt, iter(_succs(fn.blocks[nxt]))))
    if not heads: return None
    return min(heads, key=lambda h: order[h])


def extract_worker(prog):
    """-> dict(traces=[(events tuple, terminal kind)], fn name, loop_head)"""
    fn = closure_fn(prog)
    if fn is None: raise Unsupported('worker closure not found in MIR')
    head = find_loop_head(fn)
    ex = PoolExecutor(prog, loop_head=head)
    clo = Closure(fn.params[0][1], (Opaque('ArcMutexReceiver'), Int('usize', 0)))
    st = State()
    outs = ex.run_fn(fn, [clo], st)
    traces = []
    for o in outs:
        evs = tuple(e for e in o.trace)
        if o.outcome[0] == 'stop' and o.outcome[1] == 'loop-head': kind = 'loop'
        elif o.outcome[0] == 'return': kind = 'exit'
        elif o.outcome[0] == 'panic': kind = 'panic'
        else: kind = 'other:%s' % (o.outcome[1],)
        traces.append((evs, kind))
    return {'fn': fn.name, 'loop_head': head, 'traces': sorted(set(traces)), 'stats': dict(ex.stats), 'used_fns': sorted(ex.used_fns),
            'used_models': sorted(ex.used_models)}


def extract_new(prog, sizes=(1, 2, 3, 4)):
    """ThreadPool::new(size): number of Worker::new calls / spawns per concrete size, and symbolic for size <= max"""
    out = {}
    for n in sizes:
        ex = PoolExecutor(prog)
        st = State()
        outs = ex.run_fn('ThreadPool::new', [Int('usize', n)], st)
        res = []
        for o in outs:
            spawns = len([e for e in o.trace if e[0] == 'spawn'])
            res.append((o.outcome[0], spawns))
        out[n] = sorted(set(res))
    return out


def extract_execute(prog):
    fn = None
    for name, f in prog.crate_fns['rws'].items():
        if re.search(r'thread_pool::<impl[^>]*>::execute$', name): fn = f
    ex = PoolExecutor(prog)
    st = State()
    pool = Struct('ThreadPool', (Vec(()), Opaque('Sender')))
    outs = ex.run_fn(fn, [pool, Closure('{job}', ())], st)
    return sorted(set((tuple(o.trace), o.outcome[0]) for o in outs))


# ------------------------------------------------------------------ automaton
class Automaton:
    """trie of iteration traces: node 0 = loop head.  edges: node -> [(event, outcome, next)] ; next = -1 (exit), 0 (loop)"""

    def __init__(s, traces):
        s.edges = {0: []}; s.n = 1
        s.exits = False
        for evs, kind in traces:
            cur = 0
            evs = [e for e in evs if e[0] in ('lock', 'unlock', 'recv', 'try_recv', 'try_lock', 'call', 'sleep')]
            for i, e in enumerate(evs):
                name = e[0]; outc = e[1] if len(e) > 1 else None
                last = (i == len(evs) - 1)
                nxt = None
                for (n2, o2, t2) in s.edges[cur]:
                    if n2 == name and o2 == outc and ((not last) or t2 == (0 if kind == 'loop' else -1)):
                        if not last or t2 in (0, -1): nxt = t2; break
                if nxt is None or (last and nxt not in (0, -1)):
                    if last:
                        nxt = 0 if kind == 'loop' else -1
                        if kind != 'loop': s.exits = True
                    else:
                        nxt = s.n; s.n += 1; s.edges[nxt] = []
                    s.edges[cur].append((name, outc, nxt))
                cur = nxt
                if cur in (-1,) or (cur == 0 and last): break
            if not evs:
                # an iteration without any visible event (spin) -- represent as a 'sleep' self loop
                if kind == 'loop': s.edges[0].append(('sleep', None, 0))
                else: s.edges[0].append(('sleep', None, -1)); s.exits = True

    def describe(s):
        return {str(k): [(e, o, t) for e, o, t in v] for k, v in s.edges.items()}


# ------------------------------------------------------------------ BMC
def bmc(auto, N, jobs, K, query, timeout_ms=600000):
    """jobs: list of kinds 'instant' | 'rv' (rendezvous of all `rv` jobs) | 'panic'.
    query: 'stuck' (a stuck state with an unfinished job is reachable) | 'double' (a job is started twice) |
           'long' (a run of K enabled steps exists - unwinding check) | 'lost-worker' (all jobs finished or not, some worker
           is dead/exited at the end) | 'capacity' (stuck with unfinished rendezvous jobs)
    returns (status, witness schedule or None, solve seconds)"""
    M = len(jobs)
    sol = z3.SolverFor('QF_BV'); sol.set('timeout', timeout_ms)
    NT = N + 1   # threads: workers 0..N-1, submitter N
    NONE_ = 255
    def iv(name, k): return z3.BitVec('%s_%d' % (name, k), 8)
    S = []
    for k in range(K + 1):
        S.append({'pc': [iv('pc%d' % w, k) for w in range(N)], 'alive': [z3.Bool('alive%d_%d' % (w, k)) for w in range(N)],
                  'cur': [iv('cur%d' % w, k) for w in range(N)], 'run': [z3.Bool('run%d_%d' % (w, k)) for w in range(N)],
                  'holder': iv('holder', k), 'poison': z3.Bool('poison_%d' % k), 'head': iv('head', k), 'tail': iv('tail', k),
                  'js': [iv('js%d' % j, k) for j in range(M)], 'starts': [iv('st%d' % j, k) for j in range(M)]})
    s0 = S[0]
    for w in range(N):
        sol.add(s0['pc'][w] == 0, s0['alive'][w], s0['cur'][w] == NONE_, z3.Not(s0['run'][w]))
    sol.add(s0['holder'] == NONE_, z3.Not(s0['poison']), s0['head'] == 0, s0['tail'] == 0)
    for j in range(M): sol.add(s0['js'][j] == 0, s0['starts'][j] == 0)
    sched = [z3.BitVec('sched_%d' % k, 8) for k in range(K)]
    act = [z3.Bool('act_%d' % k) for k in range(K)]      # step k is a real step (False = stutter after the end)
    nrv = len([j for j in jobs if j == 'rv'])

    def started_rv(s):
        return sum([z3.If(z3.UGE(s['js'][j], 2), z3.BitVecVal(1, 8), z3.BitVecVal(0, 8)) for j in range(M) if jobs[j] == 'rv'], z3.BitVecVal(0, 8))

    def frame(a, b, keep_except=()):
        cs = []
        for w in range(N):
            for f in ('pc', 'alive', 'cur', 'run'):
                if (f, w) not in keep_except: cs.append(b[f][w] == a[f][w])
        for f in ('holder', 'poison', 'head', 'tail'):
            if f not in keep_except: cs.append(b[f] == a[f])
        for j in range(M):
            if ('js', j) not in keep_except: cs.append(b['js'][j] == a['js'][j])
            if ('starts', j) not in keep_except: cs.append(b['starts'][j] == a['starts'][j])
        return cs

    def enabled_and_effect(a, b, t):
        """list of (guard, effect constraints) for thread t between states a and b"""
        alts = []
        if t == N:
            g = z3.ULT(a['tail'], M)
            alts.append((g, [b['tail'] == a['tail'] + 1] + frame(a, b, ('tail',))))
            return alts
        w = t
        # a running job may finish (or panic)
        for j in range(M):
            mine = z3.And(a['alive'][w], a['run'][w], a['cur'][w] == j)
            if jobs[j] == 'panic':
                eff = [z3.Not(b['alive'][w]), z3.Not(b['run'][w]), b['js'][j] == 3,
                       b['holder'] == z3.If(a['holder'] == w, z3.BitVecVal(NONE_, 8), a['holder']), b['poison'] == z3.Or(a['poison'], a['holder'] == w)]
                alts.append((mine, eff + frame(a, b, (('alive', w), ('run', w), ('js', j), 'holder', 'poison'))))
            else:
                can = z3.BoolVal(True) if jobs[j] == 'instant' else z3.UGE(started_rv(a), nrv)
                eff = [z3.Not(b['run'][w]), b['js'][j] == 3]
                alts.append((z3.And(mine, can), eff + frame(a, b, (('run', w), ('js', j)))))
        # automaton edges
        for node, edges in auto.edges.items():
            here = z3.And(a['alive'][w], z3.Not(a['run'][w]), a['pc'][w] == node)
            for (name, outc, nxt) in edges:
                eff = []; keep = [('pc', w)]
                if nxt == -1:
                    eff.append(z3.Not(b['alive'][w])); keep.append(('alive', w)); eff.append(b['pc'][w] == 0)
                else:
                    eff.append(b['pc'][w] == nxt)
                g = here
                if name == 'lock':
                    g = z3.And(g, a['holder'] == NONE_, a['poison'] if outc == 'poisoned' else z3.Not(a['poison']))
                    eff.append(b['holder'] == w); keep.append('holder')
                elif name == 'try_lock':
                    if outc == 'ok':
                        g = z3.And(g, a['holder'] == NONE_, z3.Not(a['poison'])); eff.append(b['holder'] == w); keep.append('holder')
                    else:
                        g = z3.And(g, z3.Or(a['holder'] != NONE_, a['poison']))
                elif name == 'unlock':
                    eff.append(b['holder'] == z3.If(a['holder'] == w, z3.BitVecVal(NONE_, 8), a['holder'])); keep.append('holder')
                elif name in ('recv', 'try_recv'):
                    nonempty = z3.ULT(a['head'], a['tail'])
                    if outc == 'ok':
                        g = z3.And(g, nonempty)
                        eff.append(b['head'] == a['head'] + 1); keep.append('head')
                        eff.append(b['cur'][w] == a['head']); keep.append(('cur', w))
                        for j in range(M):
                            eff.append(b['js'][j] == z3.If(a['head'] == j, z3.BitVecVal(1, 8), a['js'][j])); keep.append(('js', j))
                    elif outc == 'empty':
                        g = z3.And(g, z3.Not(nonempty))
                    else:
                        g = z3.And(g, z3.BoolVal(False))      # the pool owns a Sender for its whole life: never disconnected
                elif name == 'call':
                    g = z3.And(g, a['cur'][w] != NONE_)
                    eff.append(b['run'][w]); keep.append(('run', w))
                    for j in range(M):
                        eff.append(b['js'][j] == z3.If(a['cur'][w] == j, z3.BitVecVal(2, 8), a['js'][j])); keep.append(('js', j))
                        eff.append(b['starts'][j] == a['starts'][j] + z3.If(a['cur'][w] == j, z3.BitVecVal(1, 8), z3.BitVecVal(0, 8))); keep.append(('starts', j))
                elif name == 'sleep':
                    pass
                alts.append((g, eff + frame(a, b, tuple(keep))))
        return alts

    en_any = []
    for k in range(K):
        a, b = S[k], S[k + 1]
        sol.add(z3.ULE(sched[k], N))
        step_alts = []; any_enabled = []
        for t in range(NT):
            for g, eff in enabled_and_effect(a, b, t):
                step_alts.append(z3.And(sched[k] == t, g, *eff))
                any_enabled.append(g)
        en = z3.Or(any_enabled) if any_enabled else z3.BoolVal(False)
        en_any.append(en)
        sol.add(z3.If(act[k], z3.Or(step_alts), z3.And(frame(a, b))))
        if k > 0: sol.add(z3.Implies(act[k], act[k - 1]))
    last = S[K]
    # enabledness in the final state
    fin_en = []
    dummy = {f: ([z3.BitVec('x_%s%d' % (f, i), 8) if f in ('pc', 'cur') else z3.Bool('xb_%s%d' % (f, i)) for i in range(N)]) for f in ('pc', 'alive', 'cur', 'run')}
    dummy.update({'holder': z3.BitVec('x_holder', 8), 'poison': z3.Bool('x_poison'), 'head': z3.BitVec('x_head', 8), 'tail': z3.BitVec('x_tail', 8),
                  'js': [z3.BitVec('x_js%d' % j, 8) for j in range(M)], 'starts': [z3.BitVec('x_st%d' % j, 8) for j in range(M)]})
    for t in range(NT):
        for g, eff in enabled_and_effect(last, dummy, t): fin_en.append(g)
    stuck = z3.Not(z3.Or(fin_en)) if fin_en else z3.BoolVal(True)
    unfinished = z3.Or([last['js'][j] != 3 for j in range(M)]) if M else z3.BoolVal(False)
    # a run may stop being active only when nothing is enabled (maximal runs)
    for k in range(K):
        sol.add(z3.Implies(z3.Not(act[k]), z3.Not(en_any[k])))
    if query in ('stuck', 'capacity'):
        sol.add(stuck, unfinished)
    elif query == 'double':
        sol.add(z3.Or([z3.UGE(S[k]['starts'][j], 2) for k in range(K + 1) for j in range(M)]))
    elif query == 'long':
        sol.add(act[K - 1], z3.Not(stuck))
    elif query == 'lost-worker':
        sol.add(stuck, z3.Or([z3.Not(last['alive'][w]) for w in range(N)]))
    t0 = time.time()
    r = sol.check()
    dt = time.time() - t0
    wit = None
    if r == z3.sat:
        m = sol.model()
        wit = []
        for k in range(K):
            if not z3.is_true(m.eval(act[k], model_completion=True)): break
            t = m.eval(sched[k], model_completion=True).as_long()
            desc = 'submit' if t == N else 'worker%d' % t
            wit.append(desc)
        fin = {'holder': m.eval(last['holder'], model_completion=True).as_long(),
               'jobs': [m.eval(last['js'][j], model_completion=True).as_long() for j in range(M)],
               'alive': [z3.is_true(m.eval(last['alive'][w], model_completion=True)) for w in range(N)],
               'pc': [m.eval(last['pc'][w], model_completion=True).as_long() for w in range(N)]}
        wit = {'schedule': wit, 'final': fin}
    return ('sat' if r == z3.sat else 'unsat' if r == z3.unsat else 'unknown'), wit, dt
