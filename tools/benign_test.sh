#!/bin/sh
# usage: benign_test.sh <benign ID> <check>...  -- run checks against a scratch copy of /repo@f9d2578 with the behaviour-preserving patch applied (expect exit 0)
B=$1; shift
for CK in "$@"; do
  SEED_BASE=${BENIGN_BASE:-f9d2578} SEED_PATCH=/verif/seeded/benign/$B/patch.diff /verif/tools/seed_test_iso.sh benign_$B $CK 2>&1 | grep -E "^SEED|^C[0-9]|^INCONC|^VIOL" | cut -c1-260
done
