#!/usr/bin/env python3
"""usage: manifest_add.py ID ENGINE 'technique' 'level text' 'level note'"""
import json, sys
pid, engine, tech, text, note = sys.argv[1:6]
m = json.load(open('/verif/MANIFEST.json'))
m['checks'] = [c for c in m['checks'] if c['property_id'] != pid]
m['checks'].append({"property_id": pid, "quick_cmd": "VERIF_TIER=quick ./check %s" % pid, "thorough_cmd": "VERIF_TIER=thorough ./check %s" % pid, "evidence_file": "/verif/evidence/%s.json" % pid,
                    "engine": engine, "technique": tech, "level_claimed": {"category": "model_checking", "text": text, "design_ref": "DESIGN.md 3/%s" % pid}, "level_note": note})
m['checks'].sort(key=lambda c: c['property_id'])
m['not_applicable'] = [x for x in m['not_applicable'] if x['property_id'] != pid]
for e in m['engines']:
    if e['name'] == engine and pid not in e['serves_properties']: e['serves_properties'] = sorted(e['serves_properties'] + [pid])
json.dump(m, open('/verif/MANIFEST.json', 'w'), indent=1)
