#!/bin/bash
# usage: verify_benign.sh <ID>...   -- confirm a behaviour-preserving refactoring (agents3/out/<ID>/patch.diff): applies, builds, pinned suite passes
for ID in "$@"; do
  SRC=${BENIGN_SRC:-/root/scratch/agents3/out}/$ID; OUTNAME=${BENIGN_PREFIX:-}$ID; WT=/tmp/wt/benign_$ID
  export CARGO_NET_OFFLINE=true CARGO_TARGET_DIR=$WT/target
  git -C /repo worktree remove --force $WT >/dev/null 2>&1
  git -C /repo worktree add --detach $WT HEAD >/dev/null 2>&1 || { echo "$ID cannot create worktree"; continue; }
  cd $WT
  if ! git apply --check $SRC/patch.diff 2>/dev/null; then echo "$ID patch does not apply"; cd /; git -C /repo worktree remove --force $WT; continue; fi
  git apply $SRC/patch.diff
  cargo nextest run --workspace --no-fail-fast --tool-config-file pb:/w/lib/nextest.toml --profile pb --test-threads 8 --offline > $WT/.suite.log 2>&1
  SUITE=$(grep -E "Summary" $WT/.suite.log | tail -1)
  FAILED_NAMES=$(grep -E "^\s+FAIL " $WT/.suite.log | awk '{print $NF}' | sort -u | tr '\n' ' ')
  echo "$ID files: $(git diff --stat | tail -1) | $SUITE | failing: $FAILED_NAMES"
  case "$SUITE" in *"470 passed, 1 failed"*)
    mkdir -p /verif/seeded/benign/$OUTNAME; cp $SRC/patch.diff /verif/seeded/benign/$OUTNAME/patch.diff; cp $SRC/notes.md /verif/seeded/benign/$OUTNAME/notes.md 2>/dev/null;;
  esac
  cd /; git -C /repo worktree remove --force $WT >/dev/null 2>&1; rm -rf $WT
  git -C /repo worktree remove --force ${BENIGN_WT:-/tmp/wt3}/$ID >/dev/null 2>&1
done
