#!/bin/sh
# verify round-2 seeds (deliverables in /root/scratch/agents2/out/<ID>) -> /verif/seeded/<ID>b
for i in "$@"; do
  SEED_SRC=/root/scratch/agents2/out/$i SEED_NAME=${i}b /verif/tools/verify_seed.sh $i HEAD
  git -C /repo worktree remove --force /tmp/wt2/$i >/dev/null 2>&1
done
