#!/bin/bash
# usage: verify_seed.sh <ID> [base-commit]
# Confirms a seeded change produced by a sub-agent (/root/scratch/agents/out/<ID>): in a scratch worktree of /repo
#  (1) the patch applies and the crate builds, (2) the pinned baseline suite still passes with it,
#  (3) the demonstration fails with the patch and (4) passes without it.
# Writes /verif/seeded/<ID>/{patch.diff,demo.rs,meta.json} when all four hold.  The worktree is removed afterwards.
set -u
ID=$1; BASE=${2:-HEAD}
# SEED_SRC: where the sub-agent wrote its deliverables; SEED_NAME: directory name under /verif/seeded (e.g. C03b for a second seed)
SRC=${SEED_SRC:-/root/scratch/agents/out/$ID}
NAME=${SEED_NAME:-$ID}
WT=/tmp/wt/verify_$NAME
export CARGO_NET_OFFLINE=true CARGO_TARGET_DIR=$WT/target
git -C /repo worktree remove --force $WT >/dev/null 2>&1
git -C /repo worktree add --detach $WT $BASE >/dev/null 2>&1 || { echo "cannot create worktree"; exit 2; }
cd $WT
res() { echo "$1" >> $WT/.verify_log; echo "$1"; }
: > $WT/.verify_log
if ! git apply --check $SRC/patch.diff 2>/dev/null; then res "patch does not apply to $BASE"; git -C /repo worktree remove --force $WT; exit 1; fi
git apply $SRC/patch.diff
# (2) baseline with patch, no demo
cargo nextest run --workspace --no-fail-fast --tool-config-file pb:/w/lib/nextest.toml --profile pb --test-threads 8 --offline > $WT/.suite.log 2>&1
SUITE=$(grep -E "tests run:|Summary" $WT/.suite.log | tail -1)
PASSED=$(echo "$SUITE" | grep -oE "[0-9]+ passed" | grep -oE "[0-9]+")
FAILED=$(echo "$SUITE" | grep -oE "[0-9]+ failed" | grep -oE "[0-9]+")
FAILED_NAMES=$(grep -E "^\s+FAIL " $WT/.suite.log | awk '{print $NF}' | sort -u | tr '\n' ' ')
res "suite with patch: passed=${PASSED:-?} failed=${FAILED:-0} failing: $FAILED_NAMES"
# demo wiring
DEMO=$SRC/demo.rs
if [ -f "$DEMO" ]; then
  cp $DEMO src/seeded_demo.rs
  grep -q "mod seeded_demo" src/main.rs || echo '#[cfg(test)] mod seeded_demo;' >> src/main.rs
  cargo test --offline seeded_demo -- --test-threads=1 > $WT/.demo_with.log 2>&1; W=$?
  git apply -R $SRC/patch.diff
  cargo test --offline seeded_demo -- --test-threads=1 > $WT/.demo_without.log 2>&1; WO=$?
  res "demo with patch: exit=$W ($(grep -E '^test result' $WT/.demo_with.log | tail -1))"
  res "demo without patch: exit=$WO ($(grep -E '^test result' $WT/.demo_without.log | tail -1))"
else
  res "no demo.rs (non-rust demo?)"; W=0; WO=1
fi
OK=0
if [ "${PASSED:-0}" -ge 470 ] && [ "$W" -ne 0 ] && [ "$WO" -eq 0 ]; then
  case "$FAILED_NAMES" in
    ""|*parse_long_form*) OK=1;;
  esac
  # the only tolerated failure is the baseline's always-failing test
  if [ -n "$FAILED_NAMES" ] && [ "$(echo $FAILED_NAMES | wc -w)" -gt 1 ]; then OK=0; fi
fi
if [ $OK -eq 1 ]; then
  mkdir -p /verif/seeded/$NAME
  cp $SRC/patch.diff /verif/seeded/$NAME/patch.diff
  cp $SRC/demo.rs /verif/seeded/$NAME/demo.rs
  [ -f $SRC/notes.md ] && cp $SRC/notes.md /verif/seeded/$NAME/notes.md
  [ -f $SRC/demo_wiring.txt ] && cp $SRC/demo_wiring.txt /verif/seeded/$NAME/demo_wiring.txt
  python3 - <<EOF
import json
log=open('$WT/.verify_log').read().strip().split('\n')
json.dump({'property':'$ID','base_commit':'$(git -C /repo rev-parse --short $BASE)','confirmed':True,
 'what_i_ran':['git worktree add (scratch) + git apply patch.diff','cargo nextest run (pinned baseline command) with the patch: '+log[0],
               'cargo test seeded_demo with the patch: '+log[1],'cargo test seeded_demo without the patch: '+log[2]],
 'needs_to_manifest':'see notes.md','detected_by':None}, open('/verif/seeded/$NAME/meta.json','w'), indent=1)
EOF
  res "CONFIRMED $NAME"
else
  res "NOT CONFIRMED $NAME"
fi
cd /
git -C /repo worktree remove --force $WT >/dev/null 2>&1
rm -rf $WT
exit 0
