#!/bin/sh
# usage: seed_case_iso.sh <SEED-ID> <check-module> '<case params json>'   -- one case of a check against a scratch copy of /repo with the seed applied
ID=$1; MOD=$2; PARAMS=$3
ISO=/root/scratch/iso/case_$ID.$$; rm -rf $ISO; mkdir -p $ISO
rsync -a --exclude target --exclude .git /repo/ $ISO/repo/
(cd $ISO/repo && git apply /verif/seeded/$ID/patch.diff) || { echo "patch failed"; exit 9; }
cd /verif && VERIF_REPO=$ISO/repo MIRSE_SCRATCH=$ISO/mirse timeout ${TO:-290} python3-vt -c "
import sys, json, importlib, time
sys.path.insert(0,'/verif'); sys.path.insert(0,'/verif/checks')
from mirse import harness as H, mir as M
mod = importlib.import_module('$MOD')
prog, info = M.load_program('$ISO/repo')
H._G['prog'] = prog
t = time.time()
r = mod.case(prog, json.loads(sys.argv[1]))
print('wall', round(time.time()-t,1), r.get('kinds'), {k: r[k] for k in ('served','pairs','wire_pairs','compared','reads') if k in r})
for v in r['violations'][:40]: print('V', v['key'], v['text'][:300])
for v in r['inconclusive'][:4]: print('I', str(v)[:400])
" "$PARAMS" 2>&1 | grep -v "^\[mirse\]" | tail -${TAILN:-12} | cut -c1-500
rm -rf $ISO
