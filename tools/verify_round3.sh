#!/bin/sh
for i in "$@"; do
  SEED_SRC=/root/scratch/agents4/out/$i SEED_NAME=${i}c /verif/tools/verify_seed.sh $i HEAD
  git -C /repo worktree remove --force /tmp/wt4/$i >/dev/null 2>&1
done
