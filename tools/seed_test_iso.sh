#!/bin/sh
# usage: seed_test_iso.sh <ID> [check-id] [timeout]
# Runs a check against a scratch copy of /repo with seeded/<ID>/patch.diff applied, using a scratch copy of /verif, so that
# /repo, /verif/evidence and /verif/replays are untouched and several seeds can be tried at once.  Scratch is removed afterwards.
ID=$1; CK=${2:-$1}; TO=${3:-1800}
ISO=/root/scratch/iso/$ID.$CK; rm -rf $ISO; mkdir -p $ISO /root/scratch/seedruns
if [ -n "${SEED_BASE:-}" ]; then mkdir -p $ISO/repo && git -C /repo archive $SEED_BASE | tar -x -C $ISO/repo; else rsync -a --exclude target --exclude .git /repo/ $ISO/repo/; fi
rsync -a --exclude target --exclude .git --exclude replays /verif/ $ISO/verif/
(cd $ISO/repo && git apply ${SEED_PATCH:-/verif/seeded/$ID/patch.diff}) || { echo "patch failed"; exit 9; }
(cd $ISO/verif && VERIF_REPO=$ISO/repo MIRSE_SCRATCH=$ISO/mirse ORACLE_TARGET=$ISO/otarget timeout $TO ./check $CK) > /root/scratch/seedruns/$ID.$CK.log 2>&1; rc=$?
cp $ISO/verif/evidence/$CK.json /root/scratch/seedruns/$ID.$CK.evidence.json 2>/dev/null
rm -rf /root/scratch/seedruns/$ID.$CK.replays; cp -r $ISO/verif/replays/$CK /root/scratch/seedruns/$ID.$CK.replays 2>/dev/null
rm -rf $ISO
echo "SEED $ID check=$CK rc=$rc"; grep -E "^(VIOLATION|INCONCLUSIVE)" /root/scratch/seedruns/$ID.$CK.log | cut -c1-400; tail -1 /root/scratch/seedruns/$ID.$CK.log | cut -c1-300
