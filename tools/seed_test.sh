#!/bin/sh
# usage: seed_test.sh <ID> [check-id] [timeout]  -- apply seeded/<ID>/patch.diff to /repo, run the check, undo.
ID=$1; CK=${2:-$1}; TO=${3:-1500}
cd /verif
git -C /repo diff --quiet || { echo "/repo dirty"; exit 9; }
git -C /repo apply /verif/seeded/$ID/patch.diff || exit 9
mkdir -p /root/scratch/seedruns
cp evidence/$CK.json /root/scratch/seedruns/$CK.evidence.bak 2>/dev/null
timeout $TO ./check $CK > /root/scratch/seedruns/$ID.log 2>&1; rc=$?
git -C /repo checkout -- .
cp evidence/$CK.json /root/scratch/seedruns/$ID.evidence.json 2>/dev/null
cp /root/scratch/seedruns/$CK.evidence.bak evidence/$CK.json 2>/dev/null
echo "SEED $ID check=$CK rc=$rc"; grep -E "^(VIOLATION|KNOWN-FINDING|INCONCLUSIVE)" /root/scratch/seedruns/$ID.log | cut -c1-400; tail -1 /root/scratch/seedruns/$ID.log | cut -c1-300
