#!/bin/sh
# usage: run_all.sh [quick|thorough] [ids...]  -- runs the registered checks one after the other, logs to /root/scratch/runall/<tier>/<id>.log
TIER=${1:-quick}; shift
IDS=${@:-C01 C02 C03 C04 C05 C06 C07 C08 C09 C10 C11 C12 C13 C14 C15 C16 C17 C18 C19 C20}
mkdir -p /root/scratch/runall/$TIER
cd /verif
for i in $IDS; do
  t0=$(date +%s)
  VERIF_TIER=$TIER timeout ${TO:-3600} ./check $i > /root/scratch/runall/$TIER/$i.log 2>&1; rc=$?
  echo "$i rc=$rc $(( $(date +%s) - t0 ))s $(tail -1 /root/scratch/runall/$TIER/$i.log | cut -c1-220)"
done
